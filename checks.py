"""Per-property check table used by verify.py.

Each property lists its units. A unit is one Go test of harness/props run in
one of three modes:
  rapid  - a rapid property, sharded over processes with derived seeds;
           `checks` is the total number of generated cases per tier.
  plain  - an ordinary Go test (bounded enumeration, regression replay,
           fault enumeration, stress) that shards itself by VERIF_SHARD(S).
  fuzz   - native `go test -fuzz` campaign (thorough tier only).
"""

PROPS = {}

# properties deliberately not claimed, with the reason (none at present)
NOT_APPLICABLE = {}

PROPS["C07"] = {
    "level": "exploration",
    "rule": ("strings are (a) enumerated exhaustively up to a length bound over the 11-symbol alphabet "
             "{a Z 1 . - _ : / = e-acute space}, every byte value substituted/inserted at every position of 4 valid "
             "skeletons, all compositions of valid 1..3-char parts; (b) drawn by rapid: valid-by-construction names, "
             "one-edit near misses, random bytes, random unicode; 27 Unicode look-alike / case-folding runes (Kelvin sign, dotted I, long s, "
             "full-width forms, Cyrillic a, Arabic-Indic zero, superscript two, ...) substituted and inserted at every position of the "
             "skeletons; every validator is called twice and valid device names are re-used as vendor and class (the verdict must not "
             "depend on what was validated before); (c) thorough: native fuzzing with the same oracle. "
             "Oracle: hand-written recogniser of the grammar in the statement (model/names.go). "
             "A case is non-trivial iff it has a '/' followed later by a '=' with non-empty text around them "
             "(so part validation is reached) - this includes every valid name; distinct = distinct strings."),
    "exhaustive_part": "all strings of length <= VERIF_C07_MAXLEN (5 quick, 6 thorough) over the 11-symbol alphabet; "
                       "rapid/fuzz parts are sampling",
    "assumptions": ["the grammar is the one in the property statement and SPEC.md; the oracle is independent of pkg/parser"],
    "manifest": {
        "text": ("Exhaustive for all strings up to length 5 (quick) / 6 (thorough) over an alphabet with one representative per "
                 "character class of the grammar, plus every byte value at every position of valid skeletons; beyond that, random "
                 "sampling (rapid, native fuzzing) against a hand-written recogniser. Absence of violations outside the enumerated "
                 "slice is not established."),
        "note": "trusted: the reference recogniser in harness/model/names.go (written from the statement), rapid's generators, the Go toolchain",
        "technique": ("property-based testing: bounded exhaustive enumeration + rapid generators + native fuzzing against a "
                      "reference recogniser (model oracle), compose/parse round trip"),
    },
    "health": {"quick": {"valid": 1000, "invalid": 1000, "reaches-part-validation": 1000}},
    "units": [
        {"name": "regress", "mode": "plain", "run": "TestC07Regress"},
        {"name": "exhaustive", "mode": "plain", "run": "TestC07Exhaustive", "shards": {"quick": 4, "thorough": 16},
         "env": {"VERIF_C07_MAXLEN": {"quick": 5, "thorough": 6}}},
        {"name": "rapid", "mode": "rapid", "run": "TestC07Rapid", "checks": {"quick": 1600000, "thorough": 16000000}},
        {"name": "fuzz", "mode": "fuzz", "run": "FuzzC07", "tiers": ["thorough"], "fuzztime": 90, "timeout": 600},
    ],
}

PROPS["C06"] = {
    "level": "exploration",
    "rule": ("Specs are built from a feature placement: for each of the 7 version-gated features (mount type, device-node hostPath, "
             "intelRdt, additionalGids, annotations, digit-first device name, dotted class) a set of places (spec level or device k of n). "
             "Exhaustive part: every feature absent or at exactly one place, n = 1..3 devices, every device order, every released version "
             "(29 declared strings incl. unreleased ones on 1/8 of the Specs). Rapid part: n <= 4, arbitrary subsets of places, random "
             "declared strings; the featured list element is placed behind 0..2 plain elements (and before one) of the same list, digit-first "
             "names are also generated as one-character names; every feature comes in several spellings (intelRdt with a class, empty, only "
             "enableCMT / enableMBM, only one schema; additional gid 5 / 0 / 2^32-1; mount type tmpfs / bind / blank / none; hostPath other than, "
             "equal to the path, relative). Oracle: model.RequiredVersion (max over the introduction versions of the statement) and 'released and >= "
             "minimum'; metamorphic: device permutations give the same minimum; ReadSpec on a file agrees (1/16..1/64 of cases). "
             "One case in four (rapid) or five (exhaustive) adds present-but-empty maps and lists wherever a feature is NOT used: they must not count. "
             "Non-trivial iff >= 2 devices and a feature sits in a device that is not last in the order; distinct = distinct (placement, order, declared)."),
    "exhaustive_part": "all 2^7 feature subsets x all single placements for 1..3 devices x all device orders x all 7 released versions",
    "assumptions": ["introduction versions as listed in the statement / SPEC.md table", "a leading 'v' in the declared version is a don't-care and not generated"],
    "manifest": {
        "text": ("Complete enumeration of single-placement feature combinations for up to 3 devices in every order against every released version, "
                 "plus random multi-placement Specs with up to 4 devices and arbitrary declared strings; the expected minimum comes from an "
                 "independent model. Larger device counts and feature kinds not listed in the statement are not covered."),
        "note": "trusted: model/version.go (feature table from the statement), rapid",
        "technique": "property-based testing: bounded exhaustive enumeration + rapid, reference model oracle, permutation metamorphic relation",
    },
    "health": {"quick": {"feature-in-non-last-device": 1000, "declared-unreleased": 500, "mountType@device": 500, "hostPath@device": 500}},
    "units": [
        {"name": "regress", "mode": "plain", "run": "TestC06Regress"},
        {"name": "exhaustive", "mode": "plain", "run": "TestC06Exhaustive", "shards": 16},
        {"name": "rapid", "mode": "rapid", "run": "TestC06Rapid", "checks": {"quick": 400000, "thorough": 6000000}},
    ],
}

PROPS["C05"] = {
    "level": "exploration",
    "rule": ("A library-valid Spec is drawn (gen.Spec: every optional member independently present, 1..4 devices, version >= the model's "
             "minimum), turned into a JSON tree and, for 3 of 4 cases, given exactly one defect drawn from a table of ~110 kinds "
             "(unknown members at every level, unreleased / too-low versions per gated feature, malformed kinds, device list and device "
             "defects, empty edits, malformed env / device nodes / hooks / mounts / RDT class ids / GIDs, bad or oversized annotations, null "
             "list entries, wrong JSON types) at a drawn position (spec level, first / middle / last device, first / last list element). "
             "Each document is encoded as JSON and as block YAML (harness emitter, verified to decode back to the same tree) and put "
             "through three admission routes: ReadSpec, a cache over a directory holding only that file (Refresh error, GetErrors key, "
             "devices listed) and WriteSpec of the decoded struct when representable. Expected verdict is known by construction. "
             "The table unit enumerates every defect kind at every position on one fixed three-device document. Permission defects are placed on nodes of every type (c, b, u, p, untyped); RDT class id defects at the first, a middle and the last position. Half of the defective device-node / hook / mount elements additionally get drawn valid optional members they do not have yet (hostPath, type+major, minor, fileMode, uid, gid, permissions; args, env, timeout; options, type): one defect rejects whatever else the element carries. "
             "Non-trivial iff the "
             "document has >= 2 devices and the defect (or, for valid documents, the version-gating feature) is in a device that is not "
             "last; distinct = distinct document trees."),
    "exhaustive_part": "the defect-kind x position table on the fixed rich document (table unit) is enumerated completely; the rapid unit samples",
    "assumptions": ["documents with duplicate keys, a leading 'v' in the version, names longer than 63 characters and numbers/booleans "
                    "in place of strings are stated don't-cares and are not generated",
                    "an absent/empty RDT class id is treated as 'no class id given' (valid)"],
    "manifest": {
        "text": ("Random valid Specs and single-defect mutants of them, in both encodings, through all three admission routes, with the "
                 "verdict known by construction; plus the complete defect x position table on one rich document. Documents with several "
                 "interacting defects and defect kinds outside the table are not covered."),
        "note": "trusted: the Spec generator emits only SPEC.md-valid documents (gen/spec.go), the defect table really violates SPEC.md, the harness YAML emitter (self-checked against yaml.v3 per case)",
        "technique": "property-based testing: valid-by-construction generator + single-defect mutation, oracle by construction, differential over encodings and admission routes",
    },
    "health": {"quick": {"valid": 500, "defect": 2000, "defect-in-non-last-device": 300, "where:spec": 200, "where:device-first": 200,
                         "where:device-middle": 30, "where:device-last": 200, "defective-element-with-valid-optional-members": 800}},
    "units": [
        {"name": "regress", "mode": "plain", "run": "TestC05Regress"},
        {"name": "table", "mode": "plain", "run": "TestC05Table", "shards": 4},
        {"name": "rapid", "mode": "rapid", "run": "TestC05Rapid", "checks": {"quick": 40000, "thorough": 800000}},
    ],
}

PROPS["C15"] = {
    "level": "exploration",
    "rule": ("(initial map, plugin, device id, device list) drawn by rapid: maps nil / empty / with foreign keys, CDI keys and the very "
             "key about to be generated; plugin and id strings with every character class at first / middle / last position, combined "
             "lengths concentrated on 60..66, '/' in the id, non-ASCII, lone bytes >= 0x80 that are not UTF-8 (Latin-1 letters among them), empty; device lists of valid names and near misses. Exhaustive "
             "part: every (plugin, id) of combined length <= 4 over the alphabet {a Z 0 _ - . / e-acute}, with and without the key already "
             "used, and every total length 1..70 at every split. Oracle: UpdateAnnotations either fails and the map (argument and result) "
             "equals the snapshot, or adds exactly one key that has the CDI prefix, is a legal k8s annotation key (model.K8sAnnotationKey), "
             "was unused, and whose value parses back (ParseAnnotations) to exactly the devices in order; success iff name valid, devices "
             "all qualified (model.QualifiedName) and key unused. ParseAnnotations on arbitrary maps: CDI keys only, devices = concatenation "
             "in returned-key order, error with empty results on any unqualified name; besides values joined from the device list also "
             "'decorated' values nobody's helper wrote: 1..3 qualified names with blanks / tabs / line ends before, after or around the "
             "value or a comma, leading / trailing / doubled commas (each must be refused with empty results; alone or next to a good key). "
             "Non-trivial iff combined name length in 61..65, "
             "or a CDI key pre-exists, or success with >= 2 devices; distinct = distinct cases. ParseAnnotations is also given maps with 2..5 CDI keys of 1..12 devices each (one case in four); the devices of one key must come back in the order of its value."),
    "exhaustive_part": "all (plugin, id) with combined length <= 4 over 8 symbols x key used/unused; all lengths 1..70 x all split points",
    "assumptions": ["a request with valid plugin, id, devices and an unused key must succeed (doc comment of UpdateAnnotations)"],
    "manifest": {
        "text": ("Sampling of the (map, plugin, id, devices) space with generators aimed at the 63-character limit and the character "
                 "classes, plus a complete sweep of short names and of all lengths; both outcomes are checked against independent models "
                 "of the k8s key syntax and of qualified names, and success is tied to a parse-back round trip."),
        "note": "trusted: model/names.go (k8s key and qualified-name recognisers)",
        "technique": "property-based testing: rapid + bounded exhaustive enumeration, round-trip (update then parse) and reference-model oracle",
    },
    "health": {"quick": {"name-valid": 2000, "name-invalid": 2000, "key-already-used": 500, "init-nil": 1000, "name-len-63": 200, "name-len-64": 200, "slash-in-id": 500, "decorated:leading": 1000, "decorated:trailing": 1000, "decorated:after-comma": 1000, "valid-but-for-a-non-utf8-byte-at-an-end": 1000}},
    "units": [
        {"name": "regress", "mode": "plain", "run": "TestC15Regress"},
        {"name": "exhaustive", "mode": "plain", "run": "TestC15Exhaustive", "shards": 4},
        {"name": "rapid", "mode": "rapid", "run": "TestC15Rapid", "checks": {"quick": 800000, "thorough": 12000000}},
    ],
}

PROPS["C09"] = {
    "level": "exploration",
    "rule": ("Library-valid Specs (gen.Spec, <= 3 devices, all optional members, numeric extremes of every integer field) whose free string "
             "fields (env values, paths, hook args/env, mount options/type, RDT schemas, annotation values) are drawn from a hostile "
             "generator in 7 of 8 cases: a 200-entry dictionary of YAML/JSON-sensitive spellings (yes, ~, 0123, 1_000, 2001-12-14, "
             "indicators in first position, blanks, every placement of line breaks, ---, NUL, C0, DEL, C1, NEL, U+00A0, U+2028/9, BOM, "
             "non-characters, non-BMP), strings over a 40-rune hostile alphabet, dictionary words embedded in text, rapid.String(). "
             "Each Spec is written with Cache.WriteSpec under x.json, x.yaml and an extension-less name; oracle: every file reads back "
             "(ReadSpec) to a Spec whose JSON image equals the original's, the JSON and YAML files load equal, and a cache over the "
             "directory lists the same devices with equal definitions. The dictionary unit places every dictionary string (5 embeddings) "
             "in all string fields at once. A Spec refused by WriteSpec is not a C09 case (counted under label rejected-for-writing). "
             "concurrent unit (race-detector build): 2..6 goroutines each write their own generated Spec 3..20 times into their own "
             "directory through their own cache at the same time; every writer's round trip must hold; then two of them publish under ONE "
             "name in one directory, in both encodings: whatever is published in the end must read back as exactly one of the two Specs. "
             "large unit: three (thorough: six) Specs of 1.1 .. 3 MiB written form (5000 or 12000 devices; 6 or 12 devices with annotations of "
             "200 .. 250 KiB; annotation values of control characters or line breaks) through the same round trip. "
             "One Spec in sixteen has a device whose edits are present-but-empty lists only: refused for writing or read back, never written and then unreadable. "
             "Non-trivial iff some string is outside [A-Za-z0-9_./=-]* or an integer extreme is present; distinct = distinct Specs."),
    "assumptions": ["strings are valid UTF-8 (the statement's domain)", "canonical image = encoding/json of specs.Spec (nil and empty lists equal)"],
    "manifest": {
        "text": ("Round trip of generated Specs through the real writer and reader in both encodings and through a cache, with string "
                 "generators aimed at YAML/JSON-sensitive spellings and all numeric extremes. Sampling only: a string class absent "
                 "from the dictionary/alphabet is reached only through rapid.String()."),
        "note": "trusted: encoding/json as canonical image of a Spec; the generator's notion of a valid Spec (shared with C05)",
        "technique": "property-based testing: write/read round trip, JSON-vs-YAML differential, cache differential",
    },
    "health": {"quick": {"written": 3000, "str:line-break": 300, "str:del-or-c1": 100, "str:yaml-keyword": 100, "str:c0-control": 100}},
    "units": [
        {"name": "regress", "mode": "plain", "run": "TestC09Regress"},
        {"name": "dictionary", "mode": "plain", "run": "TestC09Dictionary", "shards": 4},
        {"name": "rapid", "mode": "rapid", "run": "TestC09Rapid", "checks": {"quick": 24000, "thorough": 480000}},
        {"name": "concurrent", "mode": "rapid", "run": "TestC09Concurrent", "race": True, "shards": 8, "checks": {"quick": 160, "thorough": 8000}},
        {"name": "large", "mode": "plain", "run": "TestC09Large", "shards": {"quick": 3, "thorough": 6}, "timeout": {"quick": 2400, "thorough": 5400}},
    ],
}

PROPS["C01"] = {
    "level": "exploration",
    "rule": ("rapid state machine. Initial state: a generated layout - a list of 0..4 directory slots over a pool of 4 directories (missing, "
             "repeated, other spellings of the same path), each existing directory holding 0..4 entries among valid Spec files (.json/.yaml, "
             "kinds from 3 vendors x 2 classes, 1..3 devices out of 3 names, each device carrying a marker naming its file), invalid Spec "
             "files (syntax, semantic, empty), non-Spec names (x.txt, x.yml, x.json.bak, ...), named pipes and sockets under non-Spec names that sort before, between and after the Spec files, subdirectories (also named sub.json) holding "
             "valid Specs; half of the layouts get a scenario overlay for one name (shadowed, conflict at top, conflict below a unique "
             "higher definition, three-way, only-invalid on top, conflicts on both levels). Actions: rename a Spec file to a name the scan ignores or move it out, put valid / invalid / ignored-name "
             "file (new or overwrite), remove file, remove directory, create missing directory; after every action Refresh() on the same "
             "cache (manual unit) or polling of the query API for at most 10 s (auto unit: put by rename and remove only). Oracle after "
             "every step: layout.Resolve (last-listed directory defining the name must define it in exactly one valid file) against "
             "ListDevices, GetDevice for all 18 names of the pools (path, priority, definition, Spec), ListVendors, ListClasses, "
             "GetVendorSpecs, and no GetErrors key for a valid conflict-free file. One case = one step. Layouts may hold an exact copy of a valid file under another Spec name, named pipes and sockets, symbolic links to Spec files. "
             "Non-trivial iff >= 2 slots and some "
             "name defined by >= 2 valid files; distinct = distinct layout states. Round 9/10 additions: the action rewriteInPlace (truncate and write over an existing regular Spec file, half of the time the file rewritten last; one time in four with content of exactly the same size and the previous modification time put back)."),
    "assumptions": ["valid Spec files may be symbolic links to regular files (inside or outside the directory; added after seeded change C01-3); symlinked directories and a configured 'directory' that is a regular file named *.json are not generated (stated don't-cares)",
                    "with a directory listed twice, whether GetVendorSpecs lists its Specs once or twice is not fixed by the statement (compared as a set)"],
    "manifest": {
        "text": ("Model-based stateful testing of the cache against an independent resolution model over generated directory populations "
                 "and mutation histories, in manual and automatic refresh mode; every query of the API is compared after every step. "
                 "Bounded to 4 directories x <= ~7 files and the pools of 18 device names; sampling, not exhaustive."),
        "note": "trusted: layout.Resolve (written from the statement and doc.go); validity of generated files is by construction",
        "technique": "property-based testing: rapid state machine (model-based), reference model oracle",
    },
    "health": {"quick": {"shadowing": 2000, "conflict-at-top": 1000, "conflict-below-unique-top": 200, "three-way-conflict": 100,
                         "repeated-directory": 1000, "missing-directory": 1000, "invalid-file-with-shadowing": 500, "ignored-name-present": 1000,
                         "subdirectory-present": 500, "json-and-yaml": 1000}},
    "units": [
        {"name": "regress", "mode": "plain", "run": "TestC01Regress"},
        {"name": "manual", "mode": "rapid", "run": "TestC01Manual", "checks": {"quick": 8000, "thorough": 200000}},
        {"name": "auto", "mode": "rapid", "run": "TestC01Auto", "checks": {"quick": 1600, "thorough": 40000}},
    ],
}

PROPS["C03"] = {
    "level": "exploration",
    "rule": ("(initial OCI spec, edit list, host-node directory) drawn by rapid. OCI spec: Process / Linux / Resources / IntelRdt / Hooks / "
             "Mounts each nil, empty or populated, process uid/gid zero or not, existing env, devices, cgroup rules, mounts, hooks, GIDs, RDT, "
             "bystander fields. Edits: <= 5 entries per kind over small pools so that variable names, container paths and destinations "
             "repeat inside the edits and hit existing OCI entries; device nodes with type in {unset,c,b,p,u}, major/minor 0 or given, "
             "host node by hostPath or by path itself, pointing at mknod-created char/block nodes, a FIFO, a regular file, a directory, "
             "a symlink and a missing name; 1 case in 8 has 14..40 mounts of equal depth (Go's sort is stable below 13 elements). "
             "Oracle: the postcondition predicate of DESIGN.md C03 (checkEditsApplied), evaluated against a deep copy of the spec taken "
             "before Apply: env last-entry-wins per name and all other names' entries unchanged; one node per container path = last edit, "
             "host type/major/minor when unspecified, uid/gid defaulting, file mode verbatim, untouched nodes unchanged; cgroup rules = "
             "old rules + one allow rule per b/c node edit in order; mounts = last mount per destination, ordered by depth, stable; "
             "hooks appended per stage; GIDs appended without duplicates and without 0; RDT replaced; the rest of the spec identical. "
             "A needed host node that is missing or not a device => Apply must fail; a given type that contradicts the host type is a "
             "don't-care. Non-trivial iff the edits hit an existing entry, repeat a key, or need the host; distinct = distinct (spec, edits)."),
    "assumptions": ["the initial OCI spec has unique device paths and mount destinations, and no two spellings of one cleaned destination occur in a case",
                    "explicit minor with major 0, type 'u' rules, and the position of a mount that replaced an original one are don't-cares",
                    "mknod is available (root); otherwise /dev/null, /dev/zero, /dev/full and a FIFO are used and the evidence says so"],
    "manifest": {
        "text": ("Random OCI specs x valid edit lists x host nodes of every kind, checked against a validity predicate that admits every "
                 "output the statement admits and nothing else. Sampling over small pools; not exhaustive."),
        "note": "trusted: the predicate checkEditsApplied (props/c03_test.go), written from the statement and SPEC.md; host nodes created with mknod",
        "technique": "property-based testing: rapid generators, validity-predicate oracle over the result",
    },
    "health": {"quick": {"outcome:ok": 10000, "outcome:must-error": 2000, "env-hits-existing": 2000, "env-repeated-in-edits": 2000,
                         "device-hits-existing": 1000, "device-path-repeated-in-edits": 1000, "mount-hits-existing": 1000,
                         "mount-dest-repeated-in-edits": 1000, "mounts-13-or-more": 1000, "host:c": 1000, "host:b": 1000, "host:p": 500,
                         "rdt-overrides-existing": 500, "oci-process-nil": 1000, "oci-process-uid-nonzero": 1000, "gid-zero": 1000}},
    "units": [
        {"name": "regress", "mode": "plain", "run": "TestC03Regress"},
        {"name": "rapid", "mode": "rapid", "run": "TestC03Rapid", "checks": {"quick": 240000, "thorough": 4800000}},
    ],
}

PROPS["C02"] = {
    "level": "exploration",
    "rule": ("A layout as in C01 (<= 4 slots, <= 3 files per directory, shadowing and conflicts via the scenario overlay) whose Spec files "
             "carry rich generated edits (env, device nodes with explicit type/major, mounts, hooks, RDT, GIDs at spec level and per "
             "device) in which every env name, device path, mount destination and hook path embeds a token unique to (file, device); a "
             "generated OCI spec; a request = a random-length prefix (1..6) of a random permutation of the names the model resolves. "
             "Oracle (differential by definition): the harness builds the combined edit list from the generated documents in request order "
             "(spec-level edits of the resolved file the first time one of its devices is met, then the device's edits; RDT = last one "
             "present), applies it with ContainerEdits.Apply to a copy, and the normalised JSON image must equal the image after "
             "InjectDevices on another copy; and the result must contain no token of a non-requested device, a shadowed file, an ignored "
             "or uninvolved file; the same cache is then used for the same request again and for a one-device request. The cache is a manual one, or "
             "(one case in four) an auto-refresh cache created during a descriptor shortage, which has no watcher and rescans on every lookup. In one case in three the cache has first answered a refused request: the same names with one unresolvable name at a drawn position. "
             "Devices and Spec files also share container paths, variable names (some a prefix of another, some values with empty lines) and node paths, so that later edits replace earlier ones and positions matter. "
             "Non-trivial iff devices of one file are interleaved with a device of another file in the request, or a "
             "requested name is also defined in a shadowed (lower-priority) file; distinct = distinct (layout, request, OCI spec)."),
    "assumptions": ["ContainerEdits.Apply itself is judged by C03; C02 is defined relative to applying the combined list",
                    "requests with repeated names are outside the statement ('distinct') and not generated"],
    "manifest": {
        "text": ("Differential test of InjectDevices against an independently composed edit list over generated cache contents, with "
                 "unique markers making foreign edits visible even if both sides agreed. Sampling."),
        "note": "trusted: layout.Resolve for which file a name resolves to; ContainerEdits.Apply as the reference applier (checked separately by C03)",
        "technique": "property-based testing: differential oracle (independently built combined edit list), marker-based non-interference check",
    },
    "health": {"quick": {"devices-of-one-file-interleaved-with-another": 300, "requested-device-also-defined-in-shadowed-file": 1000, "files-2": 1000, "files-3": 300, "cache-without-watcher": 1000, "refused-request-before": 1500}},
    "units": [
        {"name": "rapid", "mode": "rapid", "run": "TestC02Rapid", "checks": {"quick": 24000, "thorough": 480000}},
    ],
}

PROPS["C04"] = {
    "level": "exploration",
    "rule": ("A layout as in C01, a generated OCI spec (or nil in 1 of 10 cases) and a request of 0..8 (sometimes 12, 17, 33 or 70) names drawn from: names the model "
             "resolves, pool names that are unknown / defined only in invalid files, names removed by a same-priority conflict, 20 "
             "syntactically invalid strings (empty, missing parts, trailing separators, blanks, newline), names of a foreign vendor, and "
             "repetitions of earlier entries; in 1 of 3 cases the directories are changed (files added / removed) after the manual-refresh "
             "cache was populated and no Refresh() follows. Oracle: U = the subsequence of the request that layout.Resolve does not resolve; if U is "
             "non-empty the call returns exactly U (order, multiplicity) and an error and the OCI spec's JSON image equals that of the "
             "copy taken before; if U is empty it returns (nil, nil); nil spec: whole request and an error; in the stale variant the answer must be the one for the content before OR the one "
             "for the content after the change, never a mixture. The request may be empty; one case in four uses an auto-refresh cache without a watcher, for which the injection itself is the refreshing call. "
             "Non-trivial iff the request "
             "mixes >= 1 resolvable and >= 1 unresolvable name on a populated OCI spec; distinct = distinct (layout, request)."),
    "assumptions": ["unmodified is judged on the JSON image and on reflect.DeepEqual of JSON clones"],
    "manifest": {
        "text": "Random mixed requests against generated cache contents with the expected miss list computed by the independent resolution model; sampling.",
        "note": "trusted: layout.Resolve",
        "technique": "property-based testing: reference-model oracle for the miss list, before/after image comparison of the OCI spec",
    },
    "health": {"quick": {"mixed-resolvable-and-unresolvable": 3000, "req:conflict-removed": 300, "req:invalid-syntax": 1000, "req:repetition": 1000, "nil-oci-spec": 500, "all-resolve": 500, "nine-or-more-unresolvable-names": 500}},
    "units": [
        {"name": "rapid", "mode": "rapid", "run": "TestC04Rapid", "checks": {"quick": 24000, "thorough": 480000}},
    ],
}

PROPS["C13"] = {
    "level": "fault_enumeration",
    "rule": ("Fault placements are generated, not hand-picked: a layout of good Spec files with pairwise distinct device names (so conflicts do not "
             "blur the error rules) over 0..4 directory slots, plus file faults (syntax error, semantic error of 6 kinds, empty file, "
             "dangling symlink = file vanished between listing and reading, symlink loop, symlink to a directory) and directory faults "
             "(missing, a regular file, a path with a non-directory ancestor, a symlink to a directory), each directory fault inserted at "
             "a drawn index of the directory list (before, between, after good directories); then a rapid state machine of new faults "
             "(break a good file, add a bad file, remove a directory) and repairs (replace a bad file by valid content or remove it, turn a "
             "faulty path into a real directory with a good file), each followed by Refresh() on the same cache. The perm unit applies "
             "permission faults (file mode 000, directory mode 000, directory mode 444, unreadable ancestor) and scans as uid 65534 "
             "through the vhelper binary. The readfaults unit runs the scan in the helper under strace and, for up to 12 of the openat / "
             "getdents64 / read calls the last scan performs on a configured directory or on a Spec file (listed by a calibration run), "
             "injects one errno of {EIO, EACCES, ENOENT, EMFILE, ENOMEM} into exactly that call (each run re-validated from its own "
             "trace): a failing file must be reported and must not affect the others, a failing directory must not affect the other "
             "directories. Oracle after every step: (1) layout.CompareView - every device of every good file resolves to "
             "its definition and nothing else is listed; (2) GetErrors has an entry for every failing Spec-named file and none for a "
             "good file; (3) Refresh returns an error if a Spec file is in error and nil if all directories are readable or absent and "
             "all files valid (other directory faults leave it open); (4) GetSpecErrors agrees with GetErrors and no stale entry "
             "survives a repair. auto unit: the same state machine on an auto-refresh cache - Refresh() does not rescan there, so the four "
             "clauses must hold once the watcher has caught up (polled for at most 10 s after each step); a directory may also leave by "
             "being renamed away (both units). during unit: the harness-owned schedule of C11 / C20 (the scan of NewCache / Configure / the first "
             "query after a directory appeared is held at a named pipe while a file is created, rewritten with valid or unparsable content, or "
             "removed) - the error report, too, must converge to that of a fresh cache. vanish unit: a Spec file vanishes between the listing of its "
             "directory and its turn in the scan (a validator hook removes it while an earlier file of the same scan is loaded): every other "
             "file, also those sorting after it, must resolve in that refresh and the next. One case = one step. Non-trivial iff a fault sits at a lower index than some good directory, or the "
             "step is a repair; distinct = distinct (layout state, fault set)."),
    "assumptions": ["files inside a directory that cannot be listed or stat-ed, and inside a symlinked directory, are not required to be reported (the library cannot see them)",
                    "permission faults need root with setuid to 65534, or a non-root caller; probed at start, skipped and labelled otherwise"],
    "manifest": {
        "text": ("Generated enumeration of fault kinds x positions in the directory list x later repairs, with the scan executed in-process and, "
                 "for permission faults, in an unprivileged helper process; every step is checked against the resolution model and the "
                 "error-report rules. Not covered: I/O errors other than those provoked by file type, links and permissions."),
        "note": "trusted: layout.Resolve; fault kinds are produced with real file-system objects (no mocks)",
        "technique": "property-based fault enumeration: rapid state machine over fault placements and repairs, reference-model oracle; privilege-dropped helper process for permission faults",
    },
    "helpers": ("vhelper",),
    "health_optional_if": {"env:permission-faults-not-effective-skipped": ["permfault:"], "env:strace-unavailable-skipped": ["iofault"]},
    "health": {"quick": {"dirfault:afile/sub": 500, "dirfault:fregular": 500, "dirfault:flink": 500, "dir-fault-before-good-directory": 1000,
                         "file-fault-before-good-directory": 1000, "filefault:dangling-link": 300, "filefault:link-loop": 300,
                         "filefault:link-to-dir": 300, "filefault:bad-syntax": 500, "filefault:empty": 300, "after:repairFile": 1000,
                         "after:repairDirFault": 200, "permfault:dir-mode-000": 50, "permfault:dir-mode-444": 50,
                         "permfault:file-mode-000": 50, "permfault:unreadable-ancestor": 50,
                         "iofault:openat": 100, "iofault:read": 100, "iofault:getdents64": 100, "iofault-on:file": 200, "iofault-on:directory": 200}},
    "units": [
        {"name": "rapid", "mode": "rapid", "run": "TestC13Rapid", "checks": {"quick": 6400, "thorough": 128000}},
        {"name": "auto", "mode": "rapid", "run": "TestC13Auto", "shards": 8, "checks": {"quick": 800, "thorough": 16000}},
        {"name": "during", "mode": "rapid", "run": "TestC13During", "shards": 4, "checks": {"quick": 240, "thorough": 6000}},
        {"name": "vanish", "mode": "rapid", "run": "TestC13Vanish", "shards": 2, "checks": {"quick": 2000, "thorough": 40000}},
        {"name": "perm", "mode": "rapid", "run": "TestC13Perm", "checks": {"quick": 1600, "thorough": 32000}},
        {"name": "readfaults", "mode": "rapid", "run": "TestC13ReadFaults", "checks": {"quick": 160, "thorough": 3200}},
    ],
}

PROPS["C16"] = {
    "level": "exploration",
    "rule": ("(valid Spec, transient id, name generator, extension, directory list, pre-existing content) drawn by rapid. Specs over vendors with "
             "dots and classes ending in .json/.yaml (gpu.json, x.yaml, y.yaml.json); ids from a list of 30 path-hostile strings ('/', '..', "
             "'../../x', leading dots, .json/.yaml suffixes, NUL, newline, backslash) and the hostile string generator incl. 300-byte ids and ids sized so that the final file name is 236..256 bytes long; all "
             "four Generate* functions, with '', .json or .yaml appended; 1..3 directories, the last one existing / missing / nested-missing, "
             "in one case of three also listed first (same or another spelling) with the other directories in between; "
             "pre-existing: the same devices in a lower directory, a file already at the target or a symbolic link there (to a Spec outside the Spec directories, to the Spec in the lower directory, dangling), the same stem with the other extension, an "
             "unrelated Spec, a named pipe / socket / symbolic link to a directory / dangling link under a name the scan ignores and that sorts "
             "before or after everything generated, plus bystander files outside the Spec directories. Oracle: (1) the generated name is a single path component; "
             "(2) snapshot of the whole sandbox tree (type, size, SHA-256) around WriteSpec - on success only the target in the last directory "
             "was created or replaced (plus directories on the way to a missing last directory), JSON iff the name ends in .json, and it "
             "reads back equal; on failure (only NUL / over-long names may fail) nothing but created directories and a *.tmp file changed; "
             "(3) after Refresh every device resolves to the target with priority len(dirs)-1 unless another file of the last directory "
             "defines it (then it must not resolve); (4) RemoveSpec(name) deletes exactly the target, and removing again or removing a "
             "never-written name succeeds and changes nothing. The last directory may also hold a subdirectory with a Spec defining the same devices. "
             "Non-trivial iff the id contains '/' or '.', the class ends in a Spec extension, "
             "the last directory was missing, or pre-existing content is present; distinct = distinct cases. The slice passed to WithSpecDirs is the caller's own; in half of the cases the caller overwrites every element of it (with a decoy directory) right after the cache was created."),
    "assumptions": ["WriteSpec may only fail for names containing NUL or longer than 255 bytes"],
    "manifest": {
        "text": "Random Specs, ids, generators and directory lists with whole-tree before/after snapshots as confinement oracle, read-back and cache resolution as functional oracle; sampling.",
        "note": "trusted: the tree snapshot (walk + SHA-256) sees every change below the sandbox root; escapes outside the sandbox root would not be seen",
        "technique": "property-based testing: whole-tree differential snapshots (metamorphic: write then remove restores the tree), round trip through reader and cache",
    },
    "health": {"quick": {"id-with-slash-or-dot": 1500, "class-ends-in-spec-extension": 2000, "lastdir:missing": 1000, "lastdir:nested-missing": 1000,
                         "pre:same-devices-in-lower-directory": 1000, "pre:file-at-target": 500, "pre:symlink-at-target": 500, "pre:same-stem-other-extension": 300, "write-failed": 50}},
    "units": [
        {"name": "rapid", "mode": "rapid", "run": "TestC16Rapid", "checks": {"quick": 24000, "thorough": 480000}},
    ],
}

PROPS["C14"] = {
    "level": "exploration",
    "rule": ("rapid state machine over one cache. Initial state: 1..3 Spec files (json/yaml, declared version = the model's minimum, so that an "
             "added hostPath would make a written-back Spec invalid) with 1..2 devices each and optional spec-level edits; every device node "
             "leaves a drawn subset of {hostPath, type, major/minor} unspecified and points - by hostPath or by its path itself - at one of "
             "four host nodes, and carries fileMode / uid / gid pointers with unusual values (setgid bits, raw st_mode, 2^32-1) in half of "
             "the cases; the nodes point at four host nodes in a sandbox directory (mknod char/block with drawn numbers, FIFO, regular file, missing). Actions: inject a "
             "drawn request into a fresh OCI spec and into a twin copy (or repeat the previous request on an equal OCI spec), "
             "Device.ApplyEdits, Spec.ApplyEdits, replace a host node by another type/major/minor (or remove it), write a cached Spec back "
             "through another cache and read it. Oracle: (1) after every action the JSON image of every cached Spec (GetVendorSpecs) and "
             "device (GetDevice, Spec.GetDevice) equals the file content it was generated from; (2) twin and repeated injections with "
             "unchanged host give equal results; (3) every injection satisfies the C03 predicate evaluated on the pristine edits against the "
             "*current* host nodes (so attributes left unspecified follow a host change); (4) write-back succeeds and reads back equal to "
             "the original file. One case = one history (~30 steps; counter 'steps'). Further actions: a request with one unresolvable name (must fail and leave no trace in later injections), a second injection and ApplyEdits into the same OCI spec object. "
             "Non-trivial iff >= 2 injections with a host change in "
             "between on a node that needs the host; distinct = distinct histories. Half of the fresh requests re-use the slice object of the previous request, overwritten in place with other names."),
    "assumptions": ["mknod available (root); otherwise host changes are limited to FIFO / regular file / missing and the evidence says so"],
    "manifest": {
        "text": "Model-based stateful test: the cache must stay equal to the generated files through any sequence of injections, edit applications and host-node changes; sampling of histories.",
        "note": "trusted: the C03 predicate (checkEditsApplied) and the generated pristine documents as the model of the cache content",
        "technique": "property-based testing: rapid state machine, invariant over the history (cache image unchanged), metamorphic repetition, C03 predicate against the current host",
    },
    "health": {"quick": {"host-changed": 1000, "injection-after-host-change": 500, "repeated-injection": 1000}},
    "units": [
        {"name": "rapid", "mode": "rapid", "run": "TestC14Rapid", "checks": {"quick": 8000, "thorough": 160000}},
    ],
}

PROPS["C17"] = {
    "level": "exploration",
    "rule": ("Documents = a generated library-valid Spec document (all optional members, <= 3 devices) with k in {0,1,1,1,2,3} mutations at "
             "drawn tree positions: remove a member, replace a value by another JSON type (string, empty string, number, bool, null, {}, [], "
             "wrapped in a list / object), replace a number by one of 19 boundary values (-1, 0, 2^32-1, 2^32, +-(2^53+1), 2^63-1, 2^63, "
             "-2^63, -2^63-1, 2^64-1, 2^64, 2^70, 1.5, -0.5, 1.0; numbers whose float64 rounding crosses a bound; numbers float64 cannot hold at all: "
             "1e400, -1E+999, 1e-400, 10^320, a 310-digit decimal), add an extra member, add an annotation with a malformed or odd key (also keys whose lower-case form has another byte length: Kelvin sign, dotted capital I, Ohm, Angstrom, capital sharp s) at spec "
             "or device level, or replace the root. Every document is encoded as JSON and as block YAML (used only if yaml.v3 decodes it "
             "back to the identical tree). Oracle: model.Draft07 - a draft-07 evaluator written for this harness that reads "
             "/repo/schema/schema.json and defs.json at run time. For documents whose annotations are well-formed, ValidateData(json), "
             "ValidateData(yaml), ValidateFile(.json), ValidateFile(.yaml), ValidateReader(json) and - when the document decodes "
             "losslessly into specs.Spec (the decoded object stands for exactly this document according to model.SpecTree, the harness's own serialiser written from the specification, not from the struct tags under test) - Validate(spec) / ValidateType must all equal the model's verdict, for the builtin schema and for "
             "an externally loaded copy of the shipped files; for malformed annotations only JSON-vs-YAML equality per entry point; the "
             "none, NOP and nil schemas must accept every object document through every entry point; the package-level functions "
             "(ValidateData, ValidateFile, ValidateReader, ReadAndValidate, Get()) are run after schema.Set of builtin / nil / external / "
             "none / nil in a rotating order and must give the verdict of the active schema (a previous choice must not leak), while every schema object (builtin, external, none, NOP, nil) "
             "keeps validating in-memory Specs with itself whatever the active schema is; sentinels: builtin rejects {} and "
             "'devices: 3'. large unit: documents of 0.5 MiB, 1 MiB -/+ 4 KiB (thorough: 2.5 and 6 MiB), as many devices or one long string, "
             "valid / invalid in the last device / invalid root member, through the same entry points. Non-trivial iff the document is invalid by exactly one mutation, or has an integer beyond 2^53 or a number outside float64, or is an "
             "unmutated valid document; distinct = distinct document trees."),
    "assumptions": ["non-object roots are only checked against the builtin/external schema (the statement's domain lists object documents for the none/nil clause)",
                    "the model ignores unknown keywords as draft-07 requires (the shipped '\"ref\": \"#definitions/Env\"' typo is therefore no constraint)",
                    "Go regexp is used for 'pattern'/'patternProperties' in the model; annotation keys with line terminators are not generated"],
    "manifest": {
        "text": ("Differential test of every validation entry point, both encodings and three schema configurations against an independent "
                 "draft-07 evaluator over the shipped schema files, on valid Specs and type/bound/extra-member mutants of them. Sampling; "
                 "the model itself is cross-checked in every run against python jsonschema's Draft7Validator on generated documents (an oracle dispute makes the run undecided, never a violation)."),
        "note": "trusted: model/draft07.go (draft-07 semantics), cross-validated in every run against python jsonschema Draft7Validator (unit model-crosscheck; skipped and labelled if python3-vt is missing)",
        "technique": "property-based testing: differential against a reference draft-07 evaluator; JSON/YAML metamorphic equality; entry-point differential",
    },
    "health": {"quick": {"model-valid": 2000, "model-invalid": 5000, "annotations-malformed": 500, "integer-beyond-2^53": 1000, "number-outside-float64": 100, "active-schema-switched": 5000, "in-memory-spec": 1000, "yaml-encodable": 10000}},
    "units": [
        {"name": "regress", "mode": "plain", "run": "TestC17Regress"},
        {"name": "rapid", "mode": "rapid", "run": "TestC17Rapid", "checks": {"quick": 24000, "thorough": 480000}},
        {"name": "large", "mode": "plain", "run": "TestC17Large", "shards": 12},
        {"name": "model-crosscheck", "mode": "rapid", "run": "TestC17ModelCrossCheck", "shards": {"quick": 2, "thorough": 8}, "checks": {"quick": 4000, "thorough": 100000}},
    ],
}

PROPS["C18"] = {
    "level": "exploration",
    "rule": ("Library-valid Specs from the shared generator (all optional members, <= 3 devices, numeric extremes of every integer field, hook "
             "timeouts in {0, 1, 30, 2^31-1, 2^32-1}, hostile strings in 3 of 4 cases, the declared version with a leading 'v' in 1 of 8). Oracle: precondition - with no validator installed "
             "WriteSpec accepts the Spec (otherwise the run is undecided: generator bug) - and the files it wrote must then load again; "
             "then schema.BuiltinSchema().Validate(spec) "
             "must be nil (in every other case the schema was first shown the same object in a refused state - devices nil - corrected in place since), and with cdi.SetSpecValidator(BuiltinSchema()) installed WriteSpec to .json and .yaml, ReadSpec of both, "
             "ValidateFile and ValidateData of both written files must succeed, the files read back equal, and a cache over them reports "
             "no load error (read-back equality is judged on the Spec as a file can hold it: bytes that are not valid UTF-8 become U+FFFD). "
             "big-annotations unit: one annotation at spec or device level whose value is a repeated unit - 'a', NUL, a two-byte rune, "
             "an invalid byte, a truncated three-byte rune - with unit counts that put the total one below / at / one and two above the "
             "256 KiB limit, counted as given and counted as written (an invalid byte is written as three bytes); whatever WriteSpec "
             "accepts must satisfy every clause, what it refuses is counted. concurrent unit (race build): 2..6 goroutines validate their own "
             "library-valid Spec with the one builtin schema object at the same time - Validate(spec), ReadSpec with the schema installed, "
             "ValidateFile - 5..30 times each; what passes alone must pass then. Non-trivial iff the Spec has annotations, an integer extreme, or a string outside [A-Za-z0-9_./=-]*; "
             "distinct = distinct Specs. The big-annotations unit also has Specs with three annotation sets (Spec, two devices) of 100 / 150 KiB each under different keys: each within the limit on its own."),
    "assumptions": ["'library-valid' is what the shared generator emits (checked per case by the precondition)", "the Spec validator is process-global: one case at a time per process, reset after each case"],
    "manifest": {
        "text": "Random library-valid Specs through the schema in memory and through the write / schema-checked read path in both encodings; sampling.",
        "note": "trusted: the generator only emits Specs the library accepts (asserted per case)",
        "technique": "property-based testing: implication oracle (library accepts => schema accepts) over generated Specs, round trip with the validator installed",
    },
    "health": {"quick": {"has:hooks": 500, "has:timeout": 200, "has:intelRdt": 200, "has:fileMode": 200, "spec-annotations": 300, "device-annotations": 300,
                         "int:9223372036854775807": 100, "int:4294967295": 300, "str:line-break": 300, "accepted-by-the-library": 30, "refused-by-the-library": 30}},
    "units": [
        {"name": "regress", "mode": "plain", "run": "TestC18Regress"},
        {"name": "rapid", "mode": "rapid", "run": "TestC18Rapid", "checks": {"quick": 16000, "thorough": 320000}},
        {"name": "big-annotations", "mode": "plain", "run": "TestC18BigAnnotations"},
        {"name": "concurrent", "mode": "rapid", "run": "TestC18Concurrent", "race": True, "shards": 4, "checks": {"quick": 160, "thorough": 4000}},
    ],
}

PROPS["C19"] = {
    "level": "exploration",
    "rule": ("cdi unit: a generated layout (1..4 directories, in one layout of four some may be missing - the library then reports "
             "directory-level errors too -, repeats and other spellings of one path allowed, with valid / invalid / "
             "ignored entries, shadowing and conflicts; Specs carry hooks, device nodes, mounts, GIDs, RDT) "
             "and in one layout of three a Spec that only the schema refuses (hook timeout -1) "
             "is passed as '-d a,b' or as repeated --spec-dirs, with --schema builtin / none / default; 1..3 drawn sub-commands per layout "
             "among devices, devices -v -o json|yaml, vendors, classes, specs, dirs, validate, inject <oci file json|yaml> <1..3 glob "
             "patterns, incl. backslash escapes and character classes> -o json|yaml. Oracle (differential): an in-process cache with default options over the same directories with the "
             "same Spec validator installed. If it reports errors: the command must exit non-zero and the set of 'Spec file <path>:' "
             "lines must equal the error keys. Otherwise exit 0 and the parsed output equals ListDevices / GetDevice definitions and "
             "paths / ListVendors with Spec counts / ListClasses / Spec file paths / directories with priorities; inject output parsed "
             "back equals the OCI spec after InjectDevices of the sorted glob matches. validate unit: generated documents (the C17 "
             "domain) as file argument or on stdin, JSON or YAML, with --schema builtin / none / copy of the shipped schema / empty; the "
             "exit status must be non-zero iff schema.Load(name).ValidateFile / ValidateData fails in-process. Non-trivial iff the layout "
             "has >= 2 directories with shadowing, or cache errors, or inject patterns matching devices of >= 2 files (cdi), a mutated "
             "document (validate); distinct = distinct (layout, command line) / (document, options)."),
    "assumptions": ["/etc/cdi and /var/run/cdi do not exist or are irrelevant once --spec-dirs is given", "the monitor sub-command (interactive, unbounded) is not exercised",
                    "the classes listing repeats a vendor once per Spec file; only class names are compared"],
    "manifest": {
        "text": "Differential test of the real cdi and validate binaries (rebuilt from /repo) against the library in-process on generated directory populations, command lines and documents; sampling.",
        "note": "trusted: output parsers in props/c19_test.go; the library as reference (its own behaviour is judged by C01-C05, C17)",
        "technique": "property-based testing: differential (command-line binary vs library), output parsed back and compared as JSON images",
    },
    "helpers": ("cdi", "validate"),
    "health": {"quick": {"cache-errors": 100, "clean-cache": 300, "sub:inject": 50, "sub:devices-v": 50, "sub:specs": 50, "stdin": 100, "document-invalid": 100, "document-valid": 50}},
    "units": [
        {"name": "cdi", "mode": "rapid", "run": "TestC19Cdi", "checks": {"quick": 1600, "thorough": 32000}},
        {"name": "validate", "mode": "rapid", "run": "TestC19Validate", "checks": {"quick": 1600, "thorough": 32000}},
    ],
}

PROPS["C11"] = {
    "level": "exploration",
    "rule": ("rapid state machine on an auto-refresh cache over 1..3 directories (each existing or missing at the start, optional initial file) "
             "plus an outside directory on the same file system; no Refresh() call anywhere. Actions: create+write, rewrite in place in "
             "two chunks, replace by temp file + rename inside the directory, move a complete file in from outside (onto a new or an "
             "existing name), hard-link a file in, make a Spec name a symbolic link (dangling, to a directory, to a file outside; in-place writers skip names that are links), create an empty file, rename away to outside, rename to another Spec name or to a "
             "non-Spec name inside the directory, remove, mkdir of a missing directory, remove a directory with its content (recreated by a "
             "later mkdir), rename a whole directory away from its configured path, rename a complete prepared directory into a missing "
             "configured path, rename one configured directory to the path of another, missing one, a plain query; file names x.json, y.yaml, z.json and the hidden .h.yaml; contents are valid Specs (2 kinds x 2 device names, unique marker), unparsable or empty; after every action a "
             "pacing draw: nothing / yield / 1 ms / 20 ms / one query. Oracle (differential, as the statement defines it): after the last "
             "action the view through queries (devices with path, priority and definition; files in error) is polled until it equals the "
             "view of a cache freshly built from the final directory contents; only 'still different 10 s after the last change' is a "
             "violation. Directory-level monitoring errors are not part of the view. One case = one history (~30 actions; counter "
             "'steps'). configure-race unit: a 300-file directory; 16 (thorough 64 per shard) times a file already passed by the scan is "
             "replaced at a delay spread over the duration of one scan while Configure / NewCache runs; the cache must still converge "
             "(the watch has to exist before the scan). regress unit: scripted histories with explicit pacing (cache lock held to delay "
             "the watcher) for F10, F17, F18 and F21; one configuration in four nests the second directory inside the first. addrace unit: one directory is created and removed / renamed away 20..300 times in a tight loop "
             "while 1..3 goroutines keep querying (every query and event tries to watch it again), then a complete directory is renamed "
             "into place and the cache must converge (F19: a watch added to a directory that was already leaving). dirchurn unit: the same machine restricted to directory-level churn (mkdir, remove, rename "
             "away, rename into place) plus empty creates and move-ins, so that histories are dense in the transitions in which a watch has "
             "to be dropped and re-added. Pacing between two changes is drawn from {none, yield, 1 ms, 20 ms, query, hold, release, release+settle}: hold takes the cache's exported mutex so that the watcher goroutine "
             "cannot handle events until a release (the harness owns the schedule: the events of the following changes pile up and are handled in one burst against a later directory state, "
             "as with a slow or descheduled watcher goroutine - F23, F24). sched unit: directory-level churn paced only by hold / release / query, no wall-clock pacing. during unit: the harness owns the schedule of one scan - the last file of one directory (any list "
             "position) is a symbolic link to a named pipe outside the configured directories, so NewCache / Configure(dirs) on a manual or "
             "an auto cache - or the first query after that directory, missing until then, was renamed into place - blocks inside its scan until the harness feeds the pipe; in that window one generated change (create, rewrite, "
             "remove, move-in, replace by rename, mkdir+file of a missing directory, remove or rename away a directory) is made in a directory "
             "already scanned or not yet scanned, the pipe is replaced by a regular file through a rename outside the watched directories, "
             "nothing changes afterwards, and the cache must converge to the fresh view. Non-trivial iff the history has a create-only event (move-in, link, empty create), a directory removed or "
             "created, or >= 4 actions; distinct = distinct histories. Race-detector build."),
    "assumptions": ["'soon' is decided by a 10 s quiescence bound (observed convergence: milliseconds)",
                    "not generated: writes through a hard link from outside, chmod-only changes, symlink targets changing"],
    "manifest": {
        "text": ("Generated histories of real file-system operations against a live watcher goroutine, compared with a freshly built cache after "
                 "quiescence. Schedules relative to the watcher are sampled through pacing draws, not enumerated; liveness is judged by a bound."),
        "note": "trusted: a manual-refresh cache over the final directory contents as the reference (its correctness is C01's business); inotify delivers events for the operations performed",
        "technique": "property-based testing: rapid state machine over file-system histories with pacing draws, differential oracle (fresh cache) after quiescence",
    },
    "parallel": 16,
    "health": {"quick": {"op:moveIn": 500, "op:linkIn": 500, "op:createEmpty": 300, "op:removeDir": 500, "op:mkdirMissing": 300, "op:rewriteInChunks": 500,
                         "op:renameInside": 500, "op:renameAway": 500, "op:renameDirAway": 300, "op:renameDirIn": 100, "op:renameDirOnto": 100, "nested-directories": 100, "target:already-scanned": 20, "target:not-yet-scanned": 20, "last:moveIn": 20, "last:linkIn": 20, "last:remove": 20}},
    "units": [
        {"name": "regress", "mode": "plain", "run": "TestC11Regress", "race": True},
        {"name": "configure-race", "mode": "plain", "run": "TestC11ConfigureRace", "race": True, "shards": {"quick": 2, "thorough": 8},
         "env": {"VERIF_C11_RACE_ITERS": {"quick": 16, "thorough": 64}}},
        {"name": "rapid", "mode": "rapid", "run": "TestC11Rapid", "race": True, "checks": {"quick": 2400, "thorough": 48000}, "timeout": {"quick": 400, "thorough": 3600}},
        {"name": "during", "mode": "rapid", "run": "TestC11During", "race": True, "shards": 4, "checks": {"quick": 320, "thorough": 8000}},
        {"name": "dirchurn", "mode": "rapid", "run": "TestC11DirChurn", "race": True, "shards": 8, "checks": {"quick": 800, "thorough": 24000}},
        {"name": "addrace", "mode": "rapid", "run": "TestC11AddRace", "race": True, "shards": 8, "checks": {"quick": 160, "thorough": 4000}},
        {"name": "sched", "mode": "rapid", "run": "TestC11Sched", "race": True, "shards": 8, "checks": {"quick": 800, "thorough": 24000}},
    ],
}

PROPS["C10"] = {
    "level": "fault_enumeration",
    "rule": ("For each generated (new Spec, encoding json/yaml, file name - plain, or with the text of a Spec extension or of the temporary suffix "
             "before the real extension, as names generated for dotted vendor domains have -, initial state in {no directory, empty directory, previous file with other valid "
             "content, previous file plus bystander files, previous file is a symbolic link to a file kept outside the directory}): syscalls unit - the helper `vhelper write` (main goroutine locked to the main "
             "thread) runs under strace; a calibration run on exactly that initial state lists every system call of the writer that touches "
             "the Spec directory (by path or through a descriptor opened there: newfstatat, mkdirat, openat, write, close, openat dir, "
             "renameat2, close); then for every such call k one run in which the writer is killed (SIGKILL) on entry to call k and one run "
             "per errno in {ENOSPC, EIO, EACCES, EMFILE} injected into call k (after every failed or interrupted run a second, shorter Spec is written under the same name into "
             "the directory as it was left: the target must then hold exactly that Spec - leftovers must not leak into a later "
             "publication); every run's own trace is parsed and the run is judged only if "
             "the fault landed on the intended call (others are counted as excluded). Because the directory only changes at system calls, "
             "'killed before call k' is what a concurrent reader sees between calls k-1 and k. offsets unit - RLIMIT_FSIZE = n in the helper "
             "for n over all offsets 0..len+1 with stride 7 (quick) / 1 (thorough): a genuine partial write. events unit - raw inotify stream "
             "of the directory during WriteSpec: no MODIFY / CLOSE_WRITE under a .json/.yaml name, no temporary entry created under such a "
             "name, no DELETE of the target. readers unit - 4 ReadSpec loops and 2 refreshing caches against two concurrent writers "
             "alternating two contents under one name (schedule-random). Oracle everywhere (c10Observe): under the target name either no file (only if none before), or a "
             "file ReadSpec loads as exactly the previous Spec (bytes unchanged) or exactly the new Spec; no other entry under a Spec name; "
             "bystanders byte-identical; a cache refresh over the directory reports no error; success reported => new content present. "
             "mountpoint unit: the previous Spec file is a single-file bind mount of itself, so the writer's rename fails with EBUSY; an "
             "uncut write and writes cut at offset 0, at a drawn inner offset and beyond the end must each leave the complete previous or "
             "the complete new content (skipped and labelled mount-unavailable where mount(2) is refused). "
             "Non-trivial iff the fault lies strictly after the first and not after the last directory-changing call (resp. the write is cut "
             "strictly inside the data) with a previous file present; distinct = distinct (Spec, encoding, initial state, call, fault). For refused opens (injected error on an openat of the Spec directory) on a directory holding a previous file, a second run adds a 7-byte file size limit for the writer: two faults in one run."),
    "assumptions": ["crash = death of the writer process; durability across power loss (unsynced page cache) is outside the statement",
                    "leftover spec.*.tmp files are admissible (never loaded); counted, not judged",
                    "strace must be able to attach (ptrace); otherwise the syscalls unit is skipped and labelled and the other three units still run"],
    "manifest": {
        "text": ("Complete enumeration of the writer's crash points and of injected failures at the system-call boundary for each generated "
                 "(Spec, encoding, initial state), every write-failure offset, the event stream seen by watchers, plus randomized reader "
                 "stress. The set of Specs and initial states is sampled; the crash points per sample are exhaustive."),
        "note": "trusted: strace's fault injection and trace (each run is re-validated from its own trace), the helper being single-threaded in its file-system calls, ReadSpec as the reader",
        "technique": "property-based fault / crash-point enumeration at the system-call boundary (strace tampering, RLIMIT_FSIZE), inotify event-stream invariant, randomized reader stress; oracle = old-or-new-complete invariant",
    },
    "helpers": ("vhelper",),
    "health_optional_if": {"env:strace-unavailable-skipped": ["mode:", "call:", "writer-killed"], "mount-unavailable": ["mount-point"]},
    "health": {"quick": {"mode:signal=SIGKILL": 100, "mode:error=ENOSPC": 100, "call:renameat2": 50, "call:write": 50, "call:openat": 50, "writer-killed": 100,
                         "offset:partial": 300, "initial:old-file": 100, "stress": 2, "mount-point": 100}},
    "units": [
        {"name": "syscalls", "mode": "rapid", "run": "TestC10Syscalls", "checks": {"quick": 96, "thorough": 2400}},
        {"name": "offsets", "mode": "rapid", "run": "TestC10WriteOffsets", "checks": {"quick": 48, "thorough": 480}, "env": {"VERIF_C10_OFFSET_STRIDE": {"quick": 7, "thorough": 1}}},
        {"name": "mountpoint", "mode": "rapid", "run": "TestC10MountPoint", "shards": 2, "checks": {"quick": 64, "thorough": 1600}},
        {"name": "events", "mode": "rapid", "run": "TestC10Events", "checks": {"quick": 3200, "thorough": 64000}},
        {"name": "readers", "mode": "plain", "run": "TestC10Readers", "race": True, "env": {"VERIF_C10_STRESS_MS": {"quick": 4000, "thorough": 60000}}},
    ],
}

PROPS["C20"] = {
    "level": "exploration",
    "rule": ("rapid unit: state machine on one cache (own process per shard: rlimits and inotify accounting are process-wide) over a pool of 4 "
             "directories (existing or missing, optional initial Spec). Actions: Configure with 0..3 generated options (directory lists of "
             "0..3 pool entries with repeats, auto-refresh on/off, several options in one call, empty call), directory changes (put a valid "
             "or invalid Spec by rename, remove an entry, remove the directory, rename the directory away), and a descriptor-shortage window (RLIMIT_NOFILE lowered to "
             "the table size, holes filled) during which the cache is reconfigured and queried. Oracle after every step: obs.FullView "
             "(devices with path, priority, definition; all error keys; directory list; directory-error keys) equals the view of a new cache "
             "created with the final options - in auto mode within a 10 s bound, in manual mode the view must stay stale after a directory "
             "change and follow an explicit Refresh(); the process holds exactly one inotify descriptor iff auto-refresh is on, with exactly "
             "one watch per existing distinct configured directory (/proc/self/fd, fdinfo); after a shortage window every query answers from "
             "the current directory contents (directory-level error keys excepted). growth unit: descriptors, inotify descriptors, watches "
             "and goroutines after 4, 52, 200 and 400 reconfigurations must not grow (tolerance 2). defcache unit: generated histories of "
             "cdi.Configure / directory changes on the package-level default cache, each in its own helper process, before or after first "
             "use, compared with a new cache with the final options (defaults: /etc/cdi, /var/run/cdi, auto on). One case = one history. "
             "during unit (harness-owned schedule): the scan inside NewCache / Configure(dirs) is held at a named pipe (the last file of one "
             "directory, through a symbolic link) while one generated change is made in a final directory already scanned or not yet scanned; "
             "afterwards the cache must converge to the view of a new cache with the final options ('reacting to changes in exactly the final "
             "directories' includes a change that lands between the start of the watch and the end of the scan). "
             "inflight unit: a first directory of 50..250 files keeps the watcher goroutine busy; 1..4 events are produced in it with drawn "
             "gaps of 0..3 ms and Configure(WithAutoRefresh(false)) is called at once; a Spec written into the second directory after "
             "Configure returned must not be visible 150 ms later without Refresh() and must be visible after it (F22); in half of the rounds the harness owns the "
             "schedule: it holds the cache's exported mutex while it produces the events (the watcher goroutine has taken one off its channel and waits for the mutex), "
             "starts Configure in that state and releases both after a drawn 0..2 ms. "
             "Half of the checks first ask Refresh() and GetErrors() only, before any device query, and compare the file-level error keys with a new cache's; one in three (auto mode, with or without a watcher) first asks GetDevice only, for the devices listed at the previous check and those a new cache has now. "
             "Non-trivial iff >= 3 reconfigurations including an auto switch or a directory-list change, or a shortage window (rapid); "
             ">= 2 cdi.Configure calls (defcache); distinct = distinct histories."),
    "assumptions": ["known finding F16 (partial shortage with a reusable watcher) is excluded by construction and probed separately (unit known-f16)",
                    "'soon' = 10 s bound; inotify bookkeeping is given 3 s to settle (fsnotify closes its descriptors asynchronously)"],
    "manifest": {
        "text": ("Model-based stateful test: after any generated sequence of reconfigurations, directory changes and descriptor shortages the "
                 "cache is compared with a freshly created one, and its kernel resources are counted from /proc; plus a growth series and "
                 "the process-wide default cache in separate processes. Sampling of histories; schedules not controlled."),
        "note": "trusted: a new cache with the final options as reference; /proc/self/fd and fdinfo for resource counts",
        "technique": "property-based testing: rapid state machine with differential oracle (fresh cache), resource invariants from /proc, fault injection by RLIMIT_NOFILE; helper process per default-cache history",
    },
    "helpers": ("vhelper",),
    "health": {"quick": {"how:Configure(dirs) from auto": 30, "target:already-scanned": 20, "auto-switched": 120, "dir-list-changed": 200, "descriptor-shortage": 200, "configured-after-first-use": 50, "configured-before-first-use": 50, "growth-series": 2}},
    "units": [
        {"name": "rapid", "mode": "rapid", "run": "TestC20Rapid", "race": True, "checks": {"quick": 480, "thorough": 12000}, "timeout": {"quick": 400, "thorough": 3600}},
        {"name": "growth", "mode": "plain", "run": "TestC20Growth", "race": True},
        {"name": "defcache", "mode": "rapid", "run": "TestC20DefaultCache", "race": True, "shards": 8, "checks": {"quick": 400, "thorough": 8000}},
        {"name": "during", "mode": "rapid", "run": "TestC20During", "race": True, "shards": 4, "checks": {"quick": 320, "thorough": 8000}},
        {"name": "inflight", "mode": "rapid", "run": "TestC20InFlight", "race": True, "shards": 8, "checks": {"quick": 120, "thorough": 3000}},
        {"name": "known-f16", "mode": "plain", "run": "TestC20KnownF16", "race": True},
    ],
}

PROPS["C12"] = {
    "level": "exploration",
    "rule": ("Generated concurrent programs under the Go race detector (halt_on_error): 3..8 goroutines, each running 50..400 operations cycled "
             "from a drawn repertoire of 1..5 of the 22 operations {ListDevices, GetDevice, ListVendors, ListClasses, GetVendorSpecs, "
             "GetSpecErrors, GetErrors, GetSpecDirectories, GetSpecDirErrors, InjectDevices(d2,d3), InjectDevices(d1,d4), Refresh, "
             "Configure(dirs), Configure(auto on), Configure(auto off), WriteSpec, RemoveSpec, Device.ApplyEdits, Spec.ApplyEdits, package-level "
             "Refresh / InjectDevices / GetErrors}; GOMAXPROCS in {2,4,16}; Gosched every 0/1/3/10 operations; an auto-refresh cache or a "
             "manual cache with a refresher goroutine; 1..3 switcher goroutines (drawn; several of them publish under the one name at the same time) that each atomically replace one Spec file between state A (d1,d2,d3, "
             "all markers A) and state B (d2,d3,d4, markers B, a few hundred bytes longer) 20..120 times - by write + rename, or (drawn) through Cache.WriteSpec of another cache object "
             "over the same directory. Oracle: (1) no race-detector report (the process exits 66 with "
             "the report; the program is left in a replay file); (2) watchdog: some operation returns at least every 30 s, else a goroutine "
             "dump; (3) snapshot consistency: every ListDevices result restricted to the kind is exactly A's or B's list, every "
             "InjectDevices(d2,d3) carries markers of one state only, InjectDevices(d1,d4) fails with exactly one unresolved name and leaves "
             "the OCI spec untouched, every GetDevice result is the device its own Spec holds and all siblings carry one marker. "
             "during unit (harness-owned schedule): the scan inside NewCache / Configure is held at a named pipe (the last file of one "
             "directory, through a symbolic link) while one generated change is made in a watched directory, so that the watcher goroutine "
             "gets an event while the constructor is still scanning; oracle: no race report, the call returns, and the cache converges to the "
             "view of a fresh cache. churn unit: 6 goroutines write and remove Spec files that sort before an untouched one while the main "
             "goroutine refreshes and queries a manual cache for 8 s (thorough 120 s) per shard: the untouched file's devices must be in every "
             "ListDevices result and inject completely every time (a file vanishing between listing and reading concerns that file only). "
             "Non-trivial iff the program contains a mutating operation (Configure, WriteSpec, RemoveSpec); distinct = distinct programs."),
    "assumptions": ["schedules are those the Go runtime produces under stress; they are not enumerated",
                    "the race detector sees only races that the executed schedule makes happen-unordered"],
    "manifest": {
        "text": ("Randomised stress of generated concurrent programs under the race detector with snapshot-consistency assertions. A lock "
                 "omission is normally visible without an unlucky interleaving (happens-before analysis); an atomicity violation that is "
                 "locked piecewise needs the switcher to land between the pieces, so its detection is probabilistic."),
        "note": "trusted: the Go race detector; schedules not controlled",
        "technique": "property-based concurrency stress: generated programs under the race detector, snapshot-consistency invariants over every result, deadlock watchdog",
    },
    "health": {"quick": {"how:NewCache": 30, "target:already-scanned": 20, "auto-refresh": 50, "manual-with-refresher": 50, "concurrent-WriteSpec-of-one-name": 40, "op:Configure" + "Dirs": 20, "op:WriteSpec": 20, "op:InjectBoth": 20}},
    "units": [
        {"name": "regress", "mode": "plain", "run": "TestC12Regress", "race": True},
        {"name": "rapid", "mode": "rapid", "run": "TestC12Rapid", "race": True, "checks": {"quick": 480, "thorough": 9600}, "timeout": {"quick": 400, "thorough": 3600}},
        {"name": "during", "mode": "rapid", "run": "TestC12During", "race": True, "shards": 4, "checks": {"quick": 320, "thorough": 8000}},
        {"name": "churn", "mode": "plain", "run": "TestC12Churn", "race": True, "shards": {"quick": 4, "thorough": 8},
         "env": {"VERIF_C12_CHURN_MS": {"quick": 8000, "thorough": 120000}}},
    ],
}

PROPS["C08"] = {
    "level": "exploration",
    "rule": ("rapid unit: byte strings used as the content of a .json or .yaml Spec file: random bytes, random text, soups of 70 YAML/JSON/CDI "
             "tokens (anchors, aliases, merge keys, tags, huge numbers, truncated UTF-8, BOM, NUL, document markers, CDI field names with "
             "null entries), nestings of depth 10..20000, alias-expansion bombs, and structure-aware mutants of generated valid documents "
             "(0..4 tree mutations: any node replaced by another JSON type / null / wrapped; 0..5 text mutations: token insertion, range "
             "deletion, truncation, duplication, byte overwrite), capped at 64 KiB. Every input goes through ParseSpec, ReadSpec, a cache "
             "refresh over a directory holding it next to a known-good file (the malformed file must get an error entry, the good file's "
             "device must still resolve), GetErrors / GetSpecErrors / listings, and - if it loads - injection of each device and of all "
             "devices into four fixed OCI specs with nil and populated sections, a generated well-formed one and a generated hostile one "
             "(mounts stacked on one destination also as last entries, repeated device paths, odd env entries, empty hooks) plus the nil spec, Device/Spec.ApplyEdits, "
             "schema.ValidateData / ValidateReader / ReadAndValidate / ValidateFile / Validate / ValidateType, MinimumRequiredVersion, and "
             "a write-back with the builtin schema installed. strings unit: byte strings, near-miss names and hostile strings through all "
             "pkg/parser functions, ValidateEnv, ParseAnnotations, AnnotationKey, AnnotationValue, UpdateAnnotations, InjectDevices, "
             "GetDevice. watcher unit: each input is dropped (rename) into a directory watched by a live auto-refresh cache, followed by a "
             "known-good file with a fresh device name, which must resolve within 10 s (the goroutine survived). Oracle: no panic (recovered "
             "per entry point; a panic in the watcher goroutine kills the process and is attributed through the saved current input), "
             "every entry point returns within a 20 s watchdog (re-run once alone before calling it a hang), malformed input yields an "
             "error. Global state (Spec validator, current schema) is reset at the top of every case, the validator reset itself under the "
             "watchdog (a lock leaked by the previous input shows there). Thorough tier adds native fuzzing "
             "of the same two oracles. Non-trivial iff the input passes tokenisation (it reaches unmarshalling or validation); distinct = "
             "distinct (content, extension). The hostile OCI environment also holds entries without '=' that spell the names of variables the edits set."),
    "assumptions": ["'hang' = no return within 20 s on inputs <= 64 KiB", "host device nodes named by fuzzed Specs are looked up on the real host; only crashes and hangs are judged there"],
    "manifest": {
        "text": ("Robustness fuzzing of every entry point that consumes untrusted data with generated, structure-aware and dictionary-driven "
                 "inputs, including a live watcher goroutine; crash/hang oracle plus 'malformed file is reported and isolated'. Sampling; "
                 "never establishes absence of crashing inputs."),
        "note": "trusted: panics are observable (recover per entry point; process death for the goroutine); watchdog bound",
        "technique": "property-based testing and fuzzing: rapid generators with structure-aware mutation, native go fuzzing (thorough), crash / hang / error-isolation oracle",
    },
    "health": {"quick": {"tokenises": 5000, "tokenises-but-invalid": 3000, "loads": 1000, "injects": 1000, "doc:deep-nesting": 500, "doc:alias-bomb": 300, "doc:token-soup": 500, "doc:text-mutated": 2000}},
    "units": [
        {"name": "regress", "mode": "plain", "run": "TestC08Regress"},
        {"name": "rapid", "mode": "rapid", "run": "TestC08Rapid", "checks": {"quick": 48000, "thorough": 960000}},
        {"name": "strings", "mode": "rapid", "run": "TestC08Strings", "checks": {"quick": 160000, "thorough": 3200000}},
        {"name": "watcher", "mode": "rapid", "run": "TestC08Watcher", "shards": 8, "checks": {"quick": 4000, "thorough": 80000}},
        {"name": "fuzz-spec", "mode": "fuzz", "run": "FuzzC08Spec", "tiers": ["thorough"], "fuzztime": 120, "timeout": 900},
        {"name": "fuzz-strings", "mode": "fuzz", "run": "FuzzC08Strings", "tiers": ["thorough"], "fuzztime": 60, "timeout": 600},
    ],
}
