"""Per-property check table used by verify.py.

Each property lists its units. A unit is one Go test of harness/props run in
one of three modes:
  rapid  - a rapid property, sharded over processes with derived seeds;
           `checks` is the total number of generated cases per tier.
  plain  - an ordinary Go test (bounded enumeration, regression replay,
           fault enumeration, stress) that shards itself by VERIF_SHARD(S).
  fuzz   - native `go test -fuzz` campaign (thorough tier only).
"""

PROPS = {}

# properties deliberately not claimed, with the reason (none at present)
NOT_APPLICABLE = {}

PROPS["C07"] = {
    "level": "exploration",
    "rule": ("strings are (a) enumerated exhaustively up to a length bound over the 11-symbol alphabet "
             "{a Z 1 . - _ : / = e-acute space}, every byte value substituted/inserted at every position of 4 valid "
             "skeletons, all compositions of valid 1..3-char parts; (b) drawn by rapid: valid-by-construction names, "
             "one-edit near misses, random bytes, random unicode; (c) thorough: native fuzzing with the same oracle. "
             "Oracle: hand-written recogniser of the grammar in the statement (model/names.go). "
             "A case is non-trivial iff it has a '/' followed later by a '=' with non-empty text around them "
             "(so part validation is reached) - this includes every valid name; distinct = distinct strings."),
    "exhaustive_part": "all strings of length <= VERIF_C07_MAXLEN (5 quick, 6 thorough) over the 11-symbol alphabet; "
                       "rapid/fuzz parts are sampling",
    "assumptions": ["the grammar is the one in the property statement and SPEC.md; the oracle is independent of pkg/parser"],
    "manifest": {
        "text": ("Exhaustive for all strings up to length 5 (quick) / 6 (thorough) over an alphabet with one representative per "
                 "character class of the grammar, plus every byte value at every position of valid skeletons; beyond that, random "
                 "sampling (rapid, native fuzzing) against a hand-written recogniser. Absence of violations outside the enumerated "
                 "slice is not established."),
        "note": "trusted: the reference recogniser in harness/model/names.go (written from the statement), rapid's generators, the Go toolchain",
        "technique": ("property-based testing: bounded exhaustive enumeration + rapid generators + native fuzzing against a "
                      "reference recogniser (model oracle), compose/parse round trip"),
    },
    "health": {"quick": {"valid": 1000, "invalid": 1000, "reaches-part-validation": 1000}},
    "units": [
        {"name": "regress", "mode": "plain", "run": "TestC07Regress"},
        {"name": "exhaustive", "mode": "plain", "run": "TestC07Exhaustive", "shards": {"quick": 4, "thorough": 16},
         "env": {"VERIF_C07_MAXLEN": {"quick": 5, "thorough": 6}}},
        {"name": "rapid", "mode": "rapid", "run": "TestC07Rapid", "checks": {"quick": 1600000, "thorough": 16000000}},
        {"name": "fuzz", "mode": "fuzz", "run": "FuzzC07", "tiers": ["thorough"], "fuzztime": 90, "timeout": 600},
    ],
}
