package main

import (
	"bufio"
	"encoding/json"
	"os"
	"runtime"

	"tags.cncf.io/container-device-interface/pkg/cdi"
	"tags.cncf.io/container-device-interface/verifharness/obs"
)

// defcacheMain drives the package-level default cache of this process.
// Commands are JSON lines on stdin, one JSON line is answered per command:
//
//	{"op":"configure","dirs":[...],"auto":true}   cdi.Configure with the given options (each optional)
//	{"op":"view"}                                  obs.FullView(cdi.GetDefaultCache())
//	{"op":"refresh"}                               cdi.Refresh()
//	{"op":"resources"}                             inotify descriptors, watches, open descriptors, goroutines
func defcacheMain(args []string) {
	in := bufio.NewScanner(os.Stdin)
	in.Buffer(make([]byte, 1<<20), 1<<24)
	out := json.NewEncoder(os.Stdout)
	for in.Scan() {
		var cmd struct {
			Op   string
			Dirs *[]string
			Auto *bool
		}
		if err := json.Unmarshal(in.Bytes(), &cmd); err != nil {
			die("bad command: %v", err)
		}
		resp := map[string]any{}
		switch cmd.Op {
		case "configure":
			var opts []cdi.Option
			if cmd.Dirs != nil {
				opts = append(opts, cdi.WithSpecDirs(*cmd.Dirs...))
			}
			if cmd.Auto != nil {
				opts = append(opts, cdi.WithAutoRefresh(*cmd.Auto))
			}
			if err := cdi.Configure(opts...); err != nil {
				resp["err"] = err.Error()
			}
		case "view":
			resp["view"] = obs.FullView(cdi.GetDefaultCache())
		case "refresh":
			if err := cdi.Refresh(); err != nil {
				resp["err"] = err.Error()
			}
		case "resources":
			fds, watches := obs.Inotify()
			resp["inotify"], resp["watches"], resp["fds"], resp["goroutines"] = fds, watches, obs.OpenFDs(), runtime.NumGoroutine()
		default:
			die("unknown op %q", cmd.Op)
		}
		_ = out.Encode(resp)
	}
}
