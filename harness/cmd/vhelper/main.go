// vhelper runs library operations in a separate process, so that they can be
// executed with dropped privileges, under strace, or with their own
// process-wide default cache. It prints one JSON object on stdout.
package main

import (
	"encoding/json"
	"flag"
	"fmt"
	"os"
	"syscall"

	"tags.cncf.io/container-device-interface/pkg/cdi"
	"tags.cncf.io/container-device-interface/verifharness/layout"
)

func die(format string, a ...any) {
	fmt.Fprintf(os.Stderr, "vhelper: "+format+"\n", a...)
	os.Exit(3)
}

func dropTo(uid int) {
	if uid < 0 {
		return
	}
	if err := syscall.Setgroups([]int{}); err != nil {
		die("setgroups: %v", err)
	}
	if err := syscall.Setgid(uid); err != nil {
		die("setgid: %v", err)
	}
	if err := syscall.Setuid(uid); err != nil {
		die("setuid: %v", err)
	}
}

func main() {
	if len(os.Args) < 2 {
		die("usage: vhelper view|write ...")
	}
	switch os.Args[1] {
	case "view":
		fs := flag.NewFlagSet("view", flag.ExitOnError)
		uid := fs.Int("uid", -1, "drop to this uid/gid first")
		_ = fs.Parse(os.Args[2:])
		dropTo(*uid)
		cache, _ := cdi.NewCache(cdi.WithSpecDirs(fs.Args()...), cdi.WithAutoRefresh(false))
		rerr := cache.Refresh()
		v := layout.Observe(cache)
		if rerr != nil {
			v.RefreshErr = rerr.Error()
		}
		_ = json.NewEncoder(os.Stdout).Encode(v)
	case "write":
		writeMain(os.Args[2:])
	case "defcache":
		defcacheMain(os.Args[2:])
	default:
		die("unknown command %q", os.Args[1])
	}
}
