package main

func writeMain(args []string) { die("write: not implemented yet") }

func defcacheMain(args []string) { die("defcache: not implemented yet") }
