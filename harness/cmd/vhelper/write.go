package main

import (
	"encoding/json"
	"flag"
	"os"
	"os/signal"
	"runtime"
	"syscall"

	"tags.cncf.io/container-device-interface/pkg/cdi"
	specs "tags.cncf.io/container-device-interface/specs-go"
)

func init() {
	// keep the main goroutine on the main thread: its system calls are then
	// one deterministic sequence on one tracee
	runtime.LockOSThread()
}

// writeMain: vhelper write [--fsize N] <dir> <name> <spec.json>
// Writes the Spec with Cache.WriteSpec and prints {"err": "..."}.
func writeMain(args []string) {
	fs := flag.NewFlagSet("write", flag.ExitOnError)
	fsize := fs.Int64("fsize", -1, "set RLIMIT_FSIZE to this many bytes (SIGXFSZ ignored) before writing")
	_ = fs.Parse(args)
	if fs.NArg() != 3 {
		die("usage: vhelper write [--fsize N] <dir> <name> <spec.json>")
	}
	dir, name, specFile := fs.Arg(0), fs.Arg(1), fs.Arg(2)
	data, err := os.ReadFile(specFile)
	if err != nil {
		die("%v", err)
	}
	var spec specs.Spec
	if err := json.Unmarshal(data, &spec); err != nil {
		die("%v", err)
	}
	cache, _ := cdi.NewCache(cdi.WithSpecDirs(dir), cdi.WithAutoRefresh(false))
	if *fsize >= 0 {
		signal.Ignore(syscall.SIGXFSZ)
		lim := syscall.Rlimit{Cur: uint64(*fsize), Max: uint64(*fsize)}
		if err := syscall.Setrlimit(syscall.RLIMIT_FSIZE, &lim); err != nil {
			die("setrlimit: %v", err)
		}
	}
	// marker system call so that the trace can be cut at the start of the write
	_ = syscall.Getppid()
	werr := cache.WriteSpec(&spec, name)
	_ = syscall.Getppid()
	out := map[string]string{}
	if werr != nil {
		out["err"] = werr.Error()
	}
	// stdout is not subject to RLIMIT_FSIZE when it is a pipe
	_ = json.NewEncoder(os.Stdout).Encode(out)
}
