package gen

import (
	"bytes"
	"encoding/json"
	"fmt"
	"math/big"
	"sort"
	"strconv"
	"strings"

	yamlv3 "gopkg.in/yaml.v3"
)

// A document tree is made of map[string]any, []any, string, json.Number,
// bool and nil.

// ToTree converts any JSON-marshalable value into a document tree.
func ToTree(v any) any {
	b, err := json.Marshal(v)
	if err != nil {
		panic(err)
	}
	return ParseJSONTree(b)
}

// ParseJSONTree parses JSON into a document tree (numbers as json.Number).
func ParseJSONTree(b []byte) any {
	d := json.NewDecoder(bytes.NewReader(b))
	d.UseNumber()
	var t any
	if err := d.Decode(&t); err != nil {
		panic(err)
	}
	return t
}

// CloneTree deep-copies a tree.
func CloneTree(t any) any {
	switch v := t.(type) {
	case map[string]any:
		m := make(map[string]any, len(v))
		for k, x := range v {
			m[k] = CloneTree(x)
		}
		return m
	case []any:
		l := make([]any, len(v))
		for i, x := range v {
			l[i] = CloneTree(x)
		}
		return l
	default:
		return v
	}
}

// EncodeJSON writes the tree as JSON (keys sorted, no HTML escaping).
func EncodeJSON(t any) []byte {
	var buf bytes.Buffer
	e := json.NewEncoder(&buf)
	e.SetEscapeHTML(false)
	if err := e.Encode(t); err != nil {
		panic(err)
	}
	return bytes.TrimRight(buf.Bytes(), "\n")
}

func quoteYAML(s string) string {
	// JSON string syntax with every non-printable-ASCII rune escaped is also a
	// valid YAML double-quoted scalar (YAML knows \", \\, \/, \b, \f, \n, \r,
	// \t, \uXXXX and \UXXXXXXXX).
	var sb strings.Builder
	sb.WriteByte('"')
	for _, r := range s {
		switch {
		case r == '"':
			sb.WriteString(`\"`)
		case r == '\\':
			sb.WriteString(`\\`)
		case r == '\n':
			sb.WriteString(`\n`)
		case r == '\t':
			sb.WriteString(`\t`)
		case r == '\r':
			sb.WriteString(`\r`)
		case r >= 0x20 && r < 0x7f:
			sb.WriteRune(r)
		case r <= 0xffff:
			fmt.Fprintf(&sb, `\u%04x`, r)
		default:
			fmt.Fprintf(&sb, `\U%08x`, r)
		}
	}
	sb.WriteByte('"')
	return sb.String()
}

// EncodeYAML writes the tree as block-style YAML with every string (keys
// included) double-quoted, so that no scalar can be re-interpreted.
func EncodeYAML(t any) []byte {
	var sb strings.Builder
	sb.WriteString("---\n")
	switch t.(type) {
	case map[string]any, []any:
		emitYAML(&sb, t, 0, false)
	default:
		sb.WriteString(scalarYAML(t) + "\n")
	}
	return []byte(sb.String())
}

func scalarYAML(t any) string {
	switch v := t.(type) {
	case nil:
		return "null"
	case bool:
		if v {
			return "true"
		}
		return "false"
	case json.Number:
		return v.String()
	case string:
		return quoteYAML(v)
	case map[string]any:
		if len(v) == 0 {
			return "{}"
		}
	case []any:
		if len(v) == 0 {
			return "[]"
		}
	}
	panic(fmt.Sprintf("scalarYAML: %T", t))
}

func isScalarYAML(t any) bool {
	switch v := t.(type) {
	case map[string]any:
		return len(v) == 0
	case []any:
		return len(v) == 0
	}
	return true
}

func emitYAML(sb *strings.Builder, t any, indent int, inline bool) {
	pad := strings.Repeat("  ", indent)
	switch v := t.(type) {
	case map[string]any:
		keys := make([]string, 0, len(v))
		for k := range v {
			keys = append(keys, k)
		}
		sort.Strings(keys)
		for i, k := range keys {
			if !(inline && i == 0) {
				sb.WriteString(pad)
			}
			sb.WriteString(quoteYAML(k) + ":")
			if isScalarYAML(v[k]) {
				sb.WriteString(" " + scalarYAML(v[k]) + "\n")
			} else {
				sb.WriteString("\n")
				emitYAML(sb, v[k], indent+1, false)
			}
		}
	case []any:
		for i, x := range v {
			if !(inline && i == 0) {
				sb.WriteString(pad)
			}
			sb.WriteString("- ")
			if isScalarYAML(x) {
				sb.WriteString(scalarYAML(x) + "\n")
			} else {
				emitYAML(sb, x, indent+1, true)
			}
		}
	}
}

// canon renders a tree (or a yaml.v3-decoded value) into a canonical string
// for comparison.
func canon(t any) string {
	switch v := t.(type) {
	case nil:
		return "null"
	case bool:
		return strconv.FormatBool(v)
	case string:
		return strconv.Quote(v)
	case json.Number:
		return canonNumber(v.String())
	case int:
		return canonNumber(strconv.Itoa(v))
	case int64:
		return canonNumber(strconv.FormatInt(v, 10))
	case uint64:
		return canonNumber(strconv.FormatUint(v, 10))
	case float64:
		return canonNumber(strconv.FormatFloat(v, 'g', -1, 64))
	case []any:
		parts := make([]string, len(v))
		for i, x := range v {
			parts[i] = canon(x)
		}
		return "[" + strings.Join(parts, ",") + "]"
	case map[string]any:
		keys := make([]string, 0, len(v))
		for k := range v {
			keys = append(keys, k)
		}
		sort.Strings(keys)
		parts := make([]string, len(keys))
		for i, k := range keys {
			parts[i] = strconv.Quote(k) + ":" + canon(v[k])
		}
		return "{" + strings.Join(parts, ",") + "}"
	case map[any]any:
		m := map[string]any{}
		for k, x := range v {
			m[fmt.Sprint(k)] = x
		}
		return canon(m)
	}
	return fmt.Sprintf("?%T", t)
}

func canonNumber(s string) string {
	if f, ok := new(big.Float).SetPrec(200).SetString(s); ok {
		if f.IsInt() {
			i, _ := f.Int(nil)
			return i.String()
		}
		return f.Text('g', 30)
	}
	return "NaN:" + s
}

// CanonTree is the canonical string of a tree.
func CanonTree(t any) string { return canon(t) }

// YAMLDecodesTo reports whether data, decoded by gopkg.in/yaml.v3 (which is
// not the decoder the code under test uses for reading), is the tree t.
func YAMLDecodesTo(data []byte, t any) bool {
	var got any
	if err := yamlv3.Unmarshal(data, &got); err != nil {
		return false
	}
	return canon(got) == canon(t)
}
