package gen

import (
	"encoding/json"
	"fmt"

	oci "github.com/opencontainers/runtime-spec/specs-go"
	"pgregory.net/rapid"
)

// OCIOpts steers the OCI spec generator.
type OCIOpts struct {
	DevPaths   []string // pool for existing device paths
	MountDests []string // pool for existing mount destinations (never two spellings of one cleaned path)
	EnvNames   []string
}

// OCISpec draws a well-formed OCI spec: each of Process, Process.User
// fields, Linux, Linux.Resources, Linux.IntelRdt, Hooks, Mounts, Annotations
// independently nil / empty / populated; device paths and mount destinations
// are unique; bystander fields are populated so that "nothing else changes"
// has something to protect.
func OCISpec(t *rapid.T, label string, o OCIOpts) *oci.Spec {
	if len(o.DevPaths) == 0 {
		o.DevPaths = []string{"/dev/a", "/dev/b", "/dev/c"}
	}
	if len(o.MountDests) == 0 {
		o.MountDests = []string{"/m", "/m/a", "/m/a/b", "/n", "/m//x/", "rel", "/"}
	}
	if len(o.EnvNames) == 0 {
		o.EnvNames = []string{"A", "B", "C", "PATH"}
	}
	s := &oci.Spec{Version: "1.0.2"}
	if rapid.Bool().Draw(t, label+"bystanders") {
		s.Hostname = "host1"
		s.Root = &oci.Root{Path: "rootfs", Readonly: true}
		s.Annotations = map[string]string{"org.example/a": "b"}
	}
	if rapid.IntRange(0, 3).Draw(t, label+"proc") != 0 {
		s.Process = &oci.Process{Cwd: "/work", Args: []string{"sh", "-c", rapid.SampledFrom([]string{"true", "true", "set -e\n\n# a script with an empty line\nexec true\n", "date +%s; printf '100%%\\n' %d %!s(x) %"}).Draw(t, label+"script")}, Terminal: rapid.Bool().Draw(t, label+"tty")}
		if rapid.Bool().Draw(t, label+"caps") {
			s.Process.Capabilities = &oci.LinuxCapabilities{Bounding: []string{"CAP_CHOWN"}, Effective: []string{"CAP_CHOWN"}}
		}
		s.Process.User.UID = rapid.SampledFrom([]uint32{0, 0, 1, 1000, 4294967295}).Draw(t, label+"puid")
		s.Process.User.GID = rapid.SampledFrom([]uint32{0, 0, 2, 1000}).Draw(t, label+"pgid")
		s.Process.User.Umask = nil
		for i, n := 0, rapid.IntRange(0, 4).Draw(t, label+"penv"); i < n; i++ {
			s.Process.Env = append(s.Process.Env, rapid.SampledFrom(o.EnvNames).Draw(t, fmt.Sprintf("%spek%d", label, i))+"="+
				rapid.SampledFrom([]string{"o1", "o2", "", "x=y"}).Draw(t, fmt.Sprintf("%spev%d", label, i)))
		}
		for i, n := 0, rapid.IntRange(0, 3).Draw(t, label+"pgids"); i < n; i++ {
			s.Process.User.AdditionalGids = append(s.Process.User.AdditionalGids, rapid.SampledFrom([]uint32{1, 2, 3, 7, 1000}).Draw(t, fmt.Sprintf("%spg%d", label, i)))
		}
	}
	if rapid.IntRange(0, 3).Draw(t, label+"linux") != 0 {
		s.Linux = &oci.Linux{}
		if rapid.Bool().Draw(t, label+"lby") {
			s.Linux.CgroupsPath = "/cg/x"
			s.Linux.Namespaces = []oci.LinuxNamespace{{Type: "pid"}, {Type: "mount"}}
			s.Linux.Sysctl = map[string]string{"net.ipv4.ip_forward": "1"}
			s.Linux.MaskedPaths = []string{"/proc/kcore"}
		}
		seen := map[string]bool{}
		for i, n := 0, rapid.IntRange(0, 3).Draw(t, label+"ldev"); i < n; i++ {
			p := rapid.SampledFrom(o.DevPaths).Draw(t, fmt.Sprintf("%sldp%d", label, i))
			if seen[p] {
				continue
			}
			seen[p] = true
			s.Linux.Devices = append(s.Linux.Devices, oci.LinuxDevice{Path: p, Type: "c", Major: 100, Minor: int64(i)})
		}
		if rapid.Bool().Draw(t, label+"lres") {
			s.Linux.Resources = &oci.LinuxResources{}
			if rapid.Bool().Draw(t, label+"lmem") {
				lim := int64(1 << 30)
				s.Linux.Resources.Memory = &oci.LinuxMemory{Limit: &lim}
			}
			switch rapid.IntRange(0, 3).Draw(t, label+"lrules") {
			case 3:
				// runc-style defaults: wildcard rules, with only the major, only the minor or neither number given
				maj := rapid.SampledFrom(int64Extremes).Draw(t, label+"lruleMajor")
				min := int64(3)
				typ := rapid.SampledFrom([]string{"c", "b", "a", ""}).Draw(t, label+"lruleType")
				s.Linux.Resources.Devices = []oci.LinuxDeviceCgroup{{Allow: false, Access: "rwm"},
					{Allow: true, Type: typ, Major: &maj, Access: rapid.SampledFrom([]string{"rwm", "rw", ""}).Draw(t, label+"lruleAccess")},
					{Allow: true, Type: typ, Minor: &min, Access: "rwm"},
					{Allow: true, Type: typ, Access: "m"}}
			case 1:
				s.Linux.Resources.Devices = []oci.LinuxDeviceCgroup{{Allow: false, Access: "rwm"}}
			case 2:
				maj, min := int64(1), int64(3)
				s.Linux.Resources.Devices = []oci.LinuxDeviceCgroup{{Allow: false, Access: "rwm"}, {Allow: true, Type: "c", Major: &maj, Minor: &min, Access: "rw"}}
			}
		}
		if rapid.Bool().Draw(t, label+"lrdt") {
			s.Linux.IntelRdt = &oci.LinuxIntelRdt{ClosID: "old", L3CacheSchema: "l3old", MemBwSchema: "mbold", EnableCMT: true, EnableMBM: true}
		}
	}
	seen := map[string]bool{}
	for i, n := 0, rapid.IntRange(0, 4).Draw(t, label+"mnt"); i < n; i++ {
		d := rapid.SampledFrom(o.MountDests).Draw(t, fmt.Sprintf("%smd%d", label, i))
		if seen[d] {
			continue
		}
		seen[d] = true
		s.Mounts = append(s.Mounts, oci.Mount{Destination: d, Source: fmt.Sprintf("orig%d", i), Type: "bind", Options: []string{"rbind"}})
	}
	if rapid.Bool().Draw(t, label+"hooks") {
		s.Hooks = &oci.Hooks{}
		to := 3
		stages := []*[]oci.Hook{&s.Hooks.Prestart, &s.Hooks.CreateRuntime, &s.Hooks.CreateContainer, &s.Hooks.StartContainer, &s.Hooks.Poststart, &s.Hooks.Poststop}
		for i, st := range stages {
			if rapid.IntRange(0, 2).Draw(t, fmt.Sprintf("%shook%d", label, i)) == 0 {
				*st = []oci.Hook{{Path: fmt.Sprintf("/orig/hook%d", i), Args: []string{"orig"}, Env: []string{"O=1"}, Timeout: &to}}
			}
		}
	}
	return s
}

// CloneOCI deep-copies an OCI spec through JSON.
func CloneOCI(s *oci.Spec) *oci.Spec {
	if s == nil {
		return nil
	}
	b, err := json.Marshal(s)
	if err != nil {
		panic(err)
	}
	var c oci.Spec
	if err := json.Unmarshal(b, &c); err != nil {
		panic(err)
	}
	return &c
}

// OCIImage is the normalised JSON image of an OCI spec: zero values and empty
// containers are pruned, so that a section that was created empty equals a
// section that is absent.
func OCIImage(s *oci.Spec) string {
	b, _ := json.Marshal(s)
	var m any
	_ = json.Unmarshal(b, &m)
	out, _ := json.Marshal(PruneZero(m))
	return string(out)
}

// PruneZero removes nulls, zero scalars, empty strings, empty lists and empty
// objects from a decoded JSON value (recursively).
func PruneZero(v any) any {
	switch x := v.(type) {
	case map[string]any:
		for k, c := range x {
			p := PruneZero(c)
			if p == nil {
				delete(x, k)
			} else {
				x[k] = p
			}
		}
		if len(x) == 0 {
			return nil
		}
		return x
	case []any:
		if len(x) == 0 {
			return nil
		}
		for i := range x {
			if p := PruneZero(x[i]); p != nil {
				x[i] = p
			} else {
				x[i] = map[string]any{} // keep list positions
			}
		}
		return x
	case string:
		if x == "" {
			return nil
		}
	case float64:
		if x == 0 {
			return nil
		}
	case bool:
		if !x {
			return nil
		}
	}
	return v
}

// OCISpecHostile draws an OCI spec that is legal for the runtime-spec types but
// outside the "well-formed" precondition of C03: stacked mounts on one
// destination (also as the last entries), repeated device paths, repeated and
// odd environment entries, empty and relative destinations. Only robustness
// (C08) is judged on these.
func OCISpecHostile(t *rapid.T, label string) *oci.Spec {
	dests := []string{"/data", "/m", "/mnt/MK", "/", "", "rel", "/data/", "/m/a"}
	s := OCISpec(t, label, OCIOpts{MountDests: dests})
	// stacked mounts
	for i, n := 0, rapid.IntRange(0, 4).Draw(t, label+"stack"); i < n; i++ {
		d := rapid.SampledFrom(dests).Draw(t, fmt.Sprintf("%sstackDest%d", label, i))
		m := oci.Mount{Destination: d, Source: fmt.Sprintf("stack%d", i), Type: "tmpfs"}
		switch rapid.IntRange(0, 2).Draw(t, fmt.Sprintf("%sstackPos%d", label, i)) {
		case 0:
			s.Mounts = append(s.Mounts, m)
		case 1:
			s.Mounts = append([]oci.Mount{m}, s.Mounts...)
		default:
			s.Mounts = append(s.Mounts, m, m)
		}
	}
	if s.Linux != nil && rapid.Bool().Draw(t, label+"dupDev") {
		for _, d := range s.Linux.Devices {
			s.Linux.Devices = append(s.Linux.Devices, d)
		}
		s.Linux.Devices = append(s.Linux.Devices, oci.LinuxDevice{Path: "", Type: "x", Major: -1, Minor: -1})
	}
	if s.Process != nil && rapid.Bool().Draw(t, label+"oddEnv") {
		s.Process.Env = append(s.Process.Env, "NOEQUALS", "", "=x", "A=1", "A=2", "A=1")
		// entries without '=' that spell the name of a variable the edits set, among the last entries
		for i, n := 0, rapid.IntRange(0, 3).Draw(t, label+"bareNames"); i < n; i++ {
			s.Process.Env = append(s.Process.Env, rapid.SampledFrom([]string{"A", "B", "PATH", "CDI_X", "a.b", "x-y", "_", "LONG_NAME_1"}).Draw(t, fmt.Sprintf("%sbare%d", label, i)))
		}
		s.Process.User.AdditionalGids = append(s.Process.User.AdditionalGids, 0, 0, 7, 7)
	}
	if s.Hooks != nil && rapid.Bool().Draw(t, label+"oddHooks") {
		s.Hooks.Prestart = append(s.Hooks.Prestart, oci.Hook{}, oci.Hook{Path: ""})
	}
	return s
}
