package gen

import (
	"fmt"
	"math"
	"os"

	"pgregory.net/rapid"
	specs "tags.cncf.io/container-device-interface/specs-go"
	"tags.cncf.io/container-device-interface/verifharness/model"
)

// EditOpts steers the container-edits generator.
type EditOpts struct {
	Hostile  bool   // hostile strings in the free string fields
	NoHost   bool   // device nodes carry an explicit type and major: no host stat at apply time
	Marker   string // if set, every env name / path is unique to this marker
	MaxPer   int    // max entries per edit kind (default 3)
	NonEmpty bool   // the edits must not be empty
	MaxVer   string // only features available in this version ("" = all)
	NoRdt    bool
}

func (o EditOpts) str(t *rapid.T, label string) string {
	if o.Hostile {
		return HostileString().Draw(t, label)
	}
	return PlainString().Draw(t, label)
}

func (o EditOpts) nonEmptyStr(t *rapid.T, label string) string {
	s := o.str(t, label)
	if s == "" {
		return "x"
	}
	return s
}

func (o EditOpts) allows(v string) bool {
	return o.MaxVer == "" || model.CmpVersion(v, o.MaxVer) <= 0
}

var (
	int64Extremes  = []int64{0, 1, 2, 7, 195, 255, 256, 65535, math.MaxInt32, math.MaxInt32 + 1, math.MaxInt64, -1, math.MinInt64, 1 << 53, (1 << 53) + 1}
	uint32Extremes = []uint32{0, 1, 7, 1000, 65534, math.MaxInt32, math.MaxInt32 + 1, math.MaxUint32}
	hookStages     = []string{"prestart", "createRuntime", "createContainer", "startContainer", "poststart", "poststop"}
	envNames       = []string{"A", "B", "PATH", "CDI_X", "a.b", "x-y", "_", "LONG_NAME_1"}
)

func u32p(t *rapid.T, label string) *uint32 {
	if rapid.Bool().Draw(t, label+"Set") {
		v := rapid.SampledFrom(uint32Extremes).Draw(t, label)
		return &v
	}
	return nil
}

// EnvEntry draws a well-formed NAME=value entry.
func (o EditOpts) EnvEntry(t *rapid.T, label string) string {
	name := rapid.SampledFrom(envNames).Draw(t, label+"Name")
	if o.Marker != "" {
		name = o.Marker + "_" + name
	}
	return name + "=" + o.str(t, label+"Val")
}

// Edits draws valid container edits; every optional member is independently
// present or absent.
func Edits(t *rapid.T, label string, o EditOpts) specs.ContainerEdits {
	if o.MaxPer == 0 {
		o.MaxPer = 3
	}
	var e specs.ContainerEdits
	cnt := func(l string) int {
		if rapid.IntRange(0, 2).Draw(t, label+l+"Has") == 0 {
			return 0
		}
		return rapid.IntRange(1, o.MaxPer).Draw(t, label+l+"N")
	}
	for i, n := 0, cnt("env"); i < n; i++ {
		e.Env = append(e.Env, o.EnvEntry(t, fmt.Sprintf("%senv%d", label, i)))
	}
	for i, n := 0, cnt("dev"); i < n; i++ {
		l := fmt.Sprintf("%sdev%d", label, i)
		d := &specs.DeviceNode{Path: "/dev/" + o.Marker + o.nonEmptyStr(t, l+"Path")}
		if o.allows("0.5.0") && rapid.Bool().Draw(t, l+"HasHost") {
			d.HostPath = "/hostdev/" + o.nonEmptyStr(t, l+"HostPath")
		}
		if o.NoHost {
			d.Type = rapid.SampledFrom([]string{"b", "c", "u", "p"}).Draw(t, l+"Type")
			d.Major = rapid.SampledFrom(int64Extremes[1:]).Draw(t, l+"Major")
			d.Minor = rapid.SampledFrom(int64Extremes).Draw(t, l+"Minor")
		} else {
			d.Type = rapid.SampledFrom([]string{"", "b", "c", "u", "p"}).Draw(t, l+"Type")
			if rapid.Bool().Draw(t, l+"HasMajor") {
				d.Major = rapid.SampledFrom(int64Extremes).Draw(t, l+"Major")
				d.Minor = rapid.SampledFrom(int64Extremes).Draw(t, l+"Minor")
			}
		}
		if rapid.Bool().Draw(t, l+"HasMode") {
			m := os.FileMode(rapid.SampledFrom([]uint32{0, 0o600, 0o666, 0o777, 0o4755, 1 << 31, math.MaxUint32}).Draw(t, l+"Mode"))
			d.FileMode = &m
		}
		d.Permissions = rapid.SampledFrom([]string{"", "r", "w", "m", "rw", "rwm", "mrw", "rr", "wm"}).Draw(t, l+"Perm")
		d.UID = u32p(t, l+"Uid")
		d.GID = u32p(t, l+"Gid")
		e.DeviceNodes = append(e.DeviceNodes, d)
	}
	for i, n := 0, cnt("hook"); i < n; i++ {
		l := fmt.Sprintf("%shook%d", label, i)
		h := &specs.Hook{HookName: rapid.SampledFrom(hookStages).Draw(t, l+"Stage"), Path: "/hooks/" + o.Marker + o.nonEmptyStr(t, l+"Path")}
		for j, m := 0, rapid.IntRange(0, 2).Draw(t, l+"Args"); j < m; j++ {
			h.Args = append(h.Args, o.str(t, fmt.Sprintf("%sArg%d", l, j)))
		}
		for j, m := 0, rapid.IntRange(0, 2).Draw(t, l+"Envs"); j < m; j++ {
			h.Env = append(h.Env, o.EnvEntry(t, fmt.Sprintf("%sEnv%d", l, j)))
		}
		if rapid.Bool().Draw(t, l+"HasTimeout") {
			v := int(rapid.SampledFrom([]int64{0, 1, 30, math.MaxInt32, math.MaxUint32}).Draw(t, l+"Timeout"))
			h.Timeout = &v
		}
		e.Hooks = append(e.Hooks, h)
	}
	for i, n := 0, cnt("mount"); i < n; i++ {
		l := fmt.Sprintf("%smount%d", label, i)
		m := &specs.Mount{HostPath: "/host/" + o.nonEmptyStr(t, l+"Host"), ContainerPath: "/mnt/" + o.Marker + o.nonEmptyStr(t, l+"Ctr")}
		if o.Marker == "" && rapid.IntRange(0, 3).Draw(t, l+"CommonDest") == 0 {
			m.ContainerPath = rapid.SampledFrom([]string{"/data", "/m", "/", "/m/a", "rel"}).Draw(t, l+"CommonDestV")
		}
		for j, k := 0, rapid.IntRange(0, 3).Draw(t, l+"Opts"); j < k; j++ {
			m.Options = append(m.Options, rapid.OneOf(rapid.SampledFrom([]string{"ro", "rw", "bind", "rbind", "nosuid", "nodev"}), rapid.Just(o.str(t, l+"OptS"))).Draw(t, fmt.Sprintf("%sOpt%d", l, j)))
		}
		if o.allows("0.4.0") && rapid.Bool().Draw(t, l+"HasType") {
			m.Type = rapid.OneOf(rapid.SampledFrom([]string{"bind", "none", "tmpfs"}), rapid.Just(o.nonEmptyStr(t, l+"TypeS"))).Draw(t, l+"Type")
		}
		e.Mounts = append(e.Mounts, m)
	}
	if !o.NoRdt && o.allows("0.7.0") && rapid.IntRange(0, 3).Draw(t, label+"HasRdt") == 0 {
		r := &specs.IntelRdt{}
		switch rapid.IntRange(0, 4).Draw(t, label+"closKind") {
		case 0:
		case 1:
			r.ClosID = "..."
		case 2:
			r.ClosID = rapid.StringMatching(`[A-Za-z0-9_.-]{1,10}`).Draw(t, label+"clos")
			if r.ClosID == "." || r.ClosID == ".." {
				r.ClosID = "clos"
			}
		case 3:
			r.ClosID = model.CleanClosID(o.nonEmptyStr(t, label+"closS"))
		case 4:
			b := make([]byte, 4095)
			for i := range b {
				b[i] = 'c'
			}
			r.ClosID = string(b)
		}
		if rapid.Bool().Draw(t, label+"hasL3") {
			r.L3CacheSchema = o.str(t, label+"l3")
		}
		if rapid.Bool().Draw(t, label+"hasMB") {
			r.MemBwSchema = o.str(t, label+"mb")
		}
		r.EnableCMT = rapid.Bool().Draw(t, label+"cmt")
		r.EnableMBM = rapid.Bool().Draw(t, label+"mbm")
		e.IntelRdt = r
	}
	if o.allows("0.7.0") {
		for i, n := 0, cnt("gid"); i < n; i++ {
			e.AdditionalGIDs = append(e.AdditionalGIDs, rapid.SampledFrom(uint32Extremes).Draw(t, fmt.Sprintf("%sgid%d", label, i)))
		}
	}
	if o.NonEmpty && EditsEmpty(&e) {
		e.Env = append(e.Env, o.EnvEntry(t, label+"envForced"))
	}
	return e
}

// EditsEmpty reports whether no edit of any kind is present.
func EditsEmpty(e *specs.ContainerEdits) bool {
	return len(e.Env) == 0 && len(e.DeviceNodes) == 0 && len(e.Hooks) == 0 && len(e.Mounts) == 0 &&
		len(e.AdditionalGIDs) == 0 && e.IntelRdt == nil
}

// SpecOpts steers the Spec generator.
type SpecOpts struct {
	Edit       EditOpts
	Vendors    []string // pools; empty = random valid names
	Classes    []string
	DevNames   []string
	MaxDevices int    // default 4
	MaxVer     string // only features up to this version
	NoAnnot    bool
}

// Annotations draws a (possibly nil) valid annotation map.
func Annotations(t *rapid.T, label string, hostile bool) map[string]string {
	if rapid.IntRange(0, 2).Draw(t, label+"Has") != 0 {
		return nil
	}
	n := rapid.IntRange(1, 3).Draw(t, label+"N")
	m := map[string]string{}
	for i := 0; i < n; i++ {
		k := AnnotationKey().Draw(t, fmt.Sprintf("%sK%d", label, i))
		if hostile {
			m[k] = HostileString().Draw(t, fmt.Sprintf("%sV%d", label, i))
		} else {
			m[k] = PlainString().Draw(t, fmt.Sprintf("%sV%d", label, i))
		}
	}
	return m
}

// Spec draws a Spec that is valid per SPEC.md by construction: valid kind,
// 1..MaxDevices devices with unique valid names and non-empty valid edits,
// valid annotations and a released version that is at least the version the
// reference model requires for the features used.
func Spec(t *rapid.T, label string, o SpecOpts) *specs.Spec {
	if o.MaxDevices == 0 {
		o.MaxDevices = 4
	}
	o.Edit.MaxVer = o.MaxVer
	allows := func(v string) bool { return o.MaxVer == "" || model.CmpVersion(v, o.MaxVer) <= 0 }
	s := &specs.Spec{}
	var vendor, class string
	if len(o.Vendors) > 0 {
		vendor = rapid.SampledFrom(o.Vendors).Draw(t, label+"vendor")
	} else {
		vendor = VendorOrClass().Draw(t, label+"vendor")
	}
	if len(o.Classes) > 0 {
		class = rapid.SampledFrom(o.Classes).Draw(t, label+"class")
	} else {
		class = VendorOrClass().Draw(t, label+"class")
	}
	if !allows("0.6.0") {
		class = noDots(class)
	}
	s.Kind = vendor + "/" + class
	if !o.NoAnnot && allows("0.6.0") {
		s.Annotations = Annotations(t, label+"ann", o.Edit.Hostile)
	}
	n := rapid.IntRange(1, o.MaxDevices).Draw(t, label+"nDev")
	seen := map[string]bool{}
	for i := 0; i < n; i++ {
		l := fmt.Sprintf("%sd%d", label, i)
		var name string
		if len(o.DevNames) > 0 {
			name = rapid.SampledFrom(o.DevNames).Draw(t, l+"name")
		} else {
			name = DeviceName().Draw(t, l+"name")
		}
		if !allows("0.5.0") && name[0] >= '0' && name[0] <= '9' {
			name = "d" + name
		}
		if seen[name] {
			continue
		}
		seen[name] = true
		eo := o.Edit
		eo.NonEmpty = true
		d := specs.Device{Name: name, ContainerEdits: Edits(t, l+"e", eo)}
		if !o.NoAnnot && allows("0.6.0") {
			d.Annotations = Annotations(t, l+"ann", o.Edit.Hostile)
		}
		s.Devices = append(s.Devices, d)
	}
	if rapid.Bool().Draw(t, label+"hasSpecEdits") {
		s.ContainerEdits = Edits(t, label+"se", o.Edit)
	}
	need := model.RequiredVersion(s)
	var ok []string
	for _, v := range model.Released {
		if model.CmpVersion(v, need) >= 0 {
			ok = append(ok, v)
		}
	}
	s.Version = rapid.SampledFrom(ok).Draw(t, label+"version")
	return s
}

func noDots(s string) string {
	b := []byte(s)
	for i := range b {
		if b[i] == '.' {
			b[i] = '-'
		}
	}
	// must still end in an alphanumeric character: '-' is never last because '.' never was
	return string(b)
}
