// Package gen holds the shared rapid generators. Every random choice is a
// rapid draw, so cases shrink and replay.
package gen

import (
	"strings"

	"pgregory.net/rapid"
)

// Hostile is the dictionary of YAML/JSON-sensitive spellings used in free
// string fields (all valid UTF-8).
var Hostile = []string{
	"", " ", "  ", "\t", "yes", "no", "Yes", "NO", "on", "off", "y", "n", "true", "false", "True", "null", "Null", "~",
	"0123", "0o17", "0x1f", "1_000", "1e3", "1E-2", ".5", "5.", ".inf", "-.inf", ".nan", ".NaN", "1:20", "190:20:30",
	"2001-12-14", "2001-12-14t21:59:43.10-05:00", "<<", "=", "-", "- a", "-a", "? a", "?", ": a", ":", "a:", "a: b", "a :b",
	"#a", "a #b", "a#b", "&a", "*a", "!a", "!!str a", "|", ">", "|-", ">+", "%", "%YAML 1.2", "@a", "`a", "[", "]", "[a]", "{", "}", "{a: b}",
	",", "a,b", "'", "''", "'a'", "\"", "\"a\"", "a\"b", "a'b", "\\", "\\n", "a\\", "\\u0041", " a", "a ", "\ta", "a\t", " a ",
	"\n", "\na", "a\n", "a\nb", "a\n\nb", "\n\na", "a\n b", "a\n\tb", " \na", "a \nb", "\r", "a\rb", "a\r\nb", "\r\n",
	"---", "--- a", "...", "a\n---\nb", "a\n...\nb",
	"\x00", "a\x00b", "\x01", "\x07", "\x08", "\x0b", "\x0c", "\x1b", "\x1f", "\x7f", "a\x7fb",
	"\u0080", "\u0085", "a\u0085b", "\u009f", "\u00a0", "a\u00a0b", "\u2028", "\u2029", "a\u2028b", "\ufeff", "\ufeffa", "a\ufeff",
	"\ufffd", "\ufffe", "\uffff", "\ud7ff", "\ue000", "\U00010000", "\U0001F600", "a\U0001F600b", "\U0010FFFF",
	"\u00e9", "\u65e5\u672c\u8a9e", "\uff41", "\u0301", "a\u0301",
	strings.Repeat("a", 100), strings.Repeat("a b ", 40), strings.Repeat("\u00e9", 50), strings.Repeat("a\n", 30),
	"key: value\nother: x", "- item\n- item2", "a: [1, 2]", "0", "-0", "+1", "-1", "1.0", "1.5e10", "0b101", "017", "08",
	"9223372036854775807", "-9223372036854775808", "18446744073709551616", "1e400",
}

var hostileAlphabet = []rune{
	'a', 'Z', '0', ' ', '\t', '\n', '\r', ':', '-', '#', '?', ',', '[', ']', '{', '}', '&', '*', '!', '|', '>', '\'', '"', '%', '@', '`',
	'\\', '=', '~', '.', '_', '/', '\x00', '\x01', '\x1b', '\x7f', '\u0085', '\u00a0', '\u2028', '\ufeff', '\ufffe', '\u00e9', '\U0001F600',
}

// HostileString draws a valid UTF-8 string biased towards spellings that a
// YAML or JSON codec may mangle.
func HostileString() *rapid.Generator[string] {
	return rapid.Custom(func(t *rapid.T) string {
		switch rapid.IntRange(0, 9).Draw(t, "strKind") {
		case 0, 1, 2, 3:
			return rapid.SampledFrom(Hostile).Draw(t, "dict")
		case 4, 5, 6:
			return rapid.StringOfN(rapid.RuneFrom(hostileAlphabet), 0, 6, -1).Draw(t, "alpha")
		case 7:
			// a dictionary word embedded in plain text
			return rapid.SampledFrom([]string{"x", "x ", " ", "", "x\n"}).Draw(t, "pre") +
				rapid.SampledFrom(Hostile).Draw(t, "dict") +
				rapid.SampledFrom([]string{"x", " x", " ", "", "\nx"}).Draw(t, "post")
		case 8:
			return rapid.String().Draw(t, "any")
		default:
			return rapid.StringMatching(`[A-Za-z0-9_./-]{0,12}`).Draw(t, "plain")
		}
	})
}

// PlainString draws from [A-Za-z0-9_./-]*.
func PlainString() *rapid.Generator[string] {
	return rapid.StringMatching(`[A-Za-z0-9_./-]{0,10}`)
}

// IsPlain reports whether s is inside the class [A-Za-z0-9_./=-]*.
func IsPlain(s string) bool {
	for i := 0; i < len(s); i++ {
		b := s[i]
		if !(b >= 'a' && b <= 'z' || b >= 'A' && b <= 'Z' || b >= '0' && b <= '9' || b == '_' || b == '.' || b == '/' || b == '=' || b == '-') {
			return false
		}
	}
	return true
}

// VendorOrClass draws a valid vendor or class name (forced shapes: one
// letter, two characters, dotted, long).
func VendorOrClass() *rapid.Generator[string] {
	return rapid.Custom(func(t *rapid.T) string {
		switch rapid.IntRange(0, 7).Draw(t, "vcShape") {
		case 0:
			return rapid.StringMatching(`[A-Za-z]`).Draw(t, "vc1")
		case 1:
			return rapid.StringMatching(`[A-Za-z][A-Za-z0-9]`).Draw(t, "vc2")
		case 2:
			return rapid.StringMatching(`[a-z]{1,4}\.[a-z]{1,3}`).Draw(t, "vcDot")
		case 3:
			return rapid.StringMatching(`[A-Za-z][A-Za-z0-9_.-]{55,61}[A-Za-z0-9]`).Draw(t, "vcLong")
		default:
			return rapid.StringMatching(`[A-Za-z]([A-Za-z0-9_.-]{0,5}[A-Za-z0-9])?`).Draw(t, "vc")
		}
	})
}

// DeviceName draws a valid device name.
func DeviceName() *rapid.Generator[string] {
	return rapid.Custom(func(t *rapid.T) string {
		switch rapid.IntRange(0, 5).Draw(t, "dnShape") {
		case 0:
			return rapid.StringMatching(`[A-Za-z0-9]`).Draw(t, "dn1")
		case 1:
			return rapid.StringMatching(`[0-9][A-Za-z0-9_.:-]{0,4}[A-Za-z0-9]`).Draw(t, "dnDigit")
		default:
			return rapid.StringMatching(`[A-Za-z]([A-Za-z0-9_.:-]{0,5}[A-Za-z0-9])?`).Draw(t, "dn")
		}
	})
}

// AnnotationKey draws a valid Kubernetes annotation key.
func AnnotationKey() *rapid.Generator[string] {
	return rapid.Custom(func(t *rapid.T) string {
		name := ""
		switch rapid.IntRange(0, 4).Draw(t, "akShape") {
		case 0:
			name = rapid.StringMatching(`[A-Za-z0-9]`).Draw(t, "ak1")
		case 1:
			name = rapid.StringMatching(`[A-Za-z0-9][-A-Za-z0-9_.]{61}[A-Za-z0-9]`).Draw(t, "ak63")
		default:
			name = rapid.StringMatching(`[A-Za-z0-9]([-A-Za-z0-9_.]{0,8}[A-Za-z0-9])?`).Draw(t, "ak")
		}
		if rapid.IntRange(0, 2).Draw(t, "akPrefix") == 0 {
			return rapid.StringMatching(`[a-z0-9]([-a-z0-9]{0,5}[a-z0-9])?(\.[a-z0-9]([-a-z0-9]{0,4}[a-z0-9])?){0,2}`).Draw(t, "akP") + "/" + name
		}
		return name
	})
}
