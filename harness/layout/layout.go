// Package layout models populations of Spec directories: a generator for
// them, their materialisation on disk, the reference resolution model
// (written from doc.go and the statement of C01, it never calls the code under
// test) and an observation of a real cache to compare with.
package layout

import (
	"encoding/json"
	"fmt"
	"os"
	"path/filepath"
	"sort"
	"strings"
	"syscall"

	"pgregory.net/rapid"
	specs "tags.cncf.io/container-device-interface/specs-go"
	"tags.cncf.io/container-device-interface/verifharness/gen"
)

// File kinds.
const (
	Valid       = "valid"        // valid Spec under a .json/.yaml name
	BadSyntax   = "bad-syntax"   // unparsable content under a Spec name
	BadSemantic = "bad-semantic" // parsable but invalid Spec under a Spec name
	Empty       = "empty"        // empty file under a Spec name
	NonSpec     = "nonspec"      // valid Spec content under a name that is not a Spec name
	Fifo        = "fifo"         // named pipe under a name that is not a Spec name (ignored by the scan)
	Socket      = "socket"       // unix socket under a name that is not a Spec name (ignored by the scan)
	// faults that are not file content (C13)
	DanglingLink = "dangling-link" // symlink under a Spec name whose target does not exist (the file vanished)
	LinkLoop     = "link-loop"     // symlink under a Spec name pointing at itself
	LinkToDir    = "link-to-dir"   // symlink under a Spec name pointing at a directory
)

// File is one regular file of a directory.
type File struct {
	Name   string
	Kind   string
	Data   []byte
	Spec   *specs.Spec // the content for Valid and NonSpec files
	Marker string
	Link   string // if set the entry is a symbolic link with this target
}

// NewLinkFault returns a Spec-named entry that is a broken symbolic link.
func (l *Layout) NewLinkFault(dirPath, name, kind string) *File {
	l.serial++
	f := &File{Name: name, Kind: kind, Marker: fmt.Sprintf("%s@%d", name, l.serial)}
	switch kind {
	case DanglingLink:
		f.Link = filepath.Join(dirPath, "vanished-target")
	case LinkLoop:
		f.Link = filepath.Join(dirPath, name)
	case LinkToDir:
		f.Link = dirPath
	}
	return f
}

func writeEntry(path string, f *File) error {
	if f.Link != "" {
		_ = os.Remove(path)
		return os.Symlink(f.Link, path)
	}
	switch f.Kind {
	case Fifo:
		_ = os.Remove(path)
		return syscall.Mkfifo(path, 0o644)
	case Socket:
		_ = os.Remove(path)
		return syscall.Mknod(path, syscall.S_IFSOCK|0o644, 0)
	}
	return os.WriteFile(path, f.Data, 0o644)
}

// Dir is one directory of the pool.
type Dir struct {
	Name    string
	Exists  bool
	Files   map[string]*File
	Subdirs map[string]map[string]*File // subdirectories (never scanned), with their files
}

// Layout is a pool of directories under Root and a configured list of slots
// (indexes into the pool; repeats and missing directories allowed).
type Layout struct {
	Root     string
	Pool     []*Dir
	Slots    []int
	Spelling []string // path given for each slot (an unclean spelling of the directory's path is possible)
	serial   int
	// AllowLinks: valid Spec files may be symbolic links to regular files outside the Spec directories
	AllowLinks bool
}

// Vendors, classes and device names come from small pools so that files collide.
var (
	Vendors          = []string{"v1.com", "v2.org", "v"}
	Classes          = []string{"gpu", "net.x"}
	DevNames         = []string{"d0", "d1", "2d"}
	specFileNames    = []string{"a.json", "b.yaml", "c.json", "d.yaml", ".h.json", "e.x.yaml"}
	nonSpecFileNames = []string{"x.txt", "x.yml", "x.json.bak", "x", "spec.123.tmp", "y.JSON", "z.yaml~"}
	// special files: names that sort before, between and after the Spec file names
	specialFileNames = []string{"0-plugin.sock", "b.sock", "ctl.fifo", "zz.sock", ".s.fifo"}
)

func IsSpecName(n string) bool {
	e := filepath.Ext(n)
	return e == ".json" || e == ".yaml"
}

// Path returns the clean path of pool directory i.
func (l *Layout) Path(i int) string { return filepath.Join(l.Root, l.Pool[i].Name) }

// Paths returns the configured directory list as given to WithSpecDirs.
func (l *Layout) Paths() []string {
	out := make([]string, len(l.Slots))
	for i := range l.Slots {
		out[i] = l.Spelling[i]
	}
	return out
}

// EditsFunc builds the edits of a device (or of the Spec, dev == "").
type EditsFunc func(t *rapid.T, marker, dev string) specs.ContainerEdits

// MarkerEdits is the default: one environment variable carrying the marker.
func MarkerEdits(t *rapid.T, marker, dev string) specs.ContainerEdits {
	if dev == "" {
		return specs.ContainerEdits{}
	}
	return specs.ContainerEdits{Env: []string{"M=" + marker + "#" + dev}}
}

// NewValidFile draws a valid Spec file for directory dir under the given name.
func (l *Layout) NewValidFile(t *rapid.T, label, dir, name string, edits EditsFunc, kind string, devs []string) *File {
	l.serial++
	marker := fmt.Sprintf("%s/%s@%d", dir, name, l.serial)
	if kind == "" {
		kind = rapid.SampledFrom(Vendors).Draw(t, label+"vendor") + "/" + rapid.SampledFrom(Classes).Draw(t, label+"class")
	}
	if devs == nil {
		n := rapid.IntRange(1, 3).Draw(t, label+"nDev")
		perm := rapid.Permutation(DevNames).Draw(t, label+"devOrder")
		devs = perm[:n]
	}
	if edits == nil {
		edits = MarkerEdits
	}
	s := &specs.Spec{Version: "1.0.0", Kind: kind, ContainerEdits: edits(t, marker, "")}
	for _, d := range devs {
		s.Devices = append(s.Devices, specs.Device{Name: d, ContainerEdits: edits(t, marker, d)})
	}
	f := &File{Name: name, Kind: Valid, Spec: s, Marker: marker}
	if !IsSpecName(name) {
		f.Kind = NonSpec
	}
	// one valid file in six is a symbolic link to the real file, kept outside the Spec directories
	// (what a ConfigMap volume or `ln -s` produces): reading it yields the same valid Spec
	linked := l.AllowLinks && rapid.IntRange(0, 5).Draw(t, label+"symlinked") == 0
	if strings.HasSuffix(name, ".json") || rapid.Bool().Draw(t, label+"jsonInYaml") {
		f.Data, _ = json.Marshal(s)
	} else {
		f.Data = gen.EncodeYAML(gen.ToTree(s))
	}
	if linked {
		tdir := filepath.Join(l.Root, "link-targets")
		_ = os.MkdirAll(tdir, 0o755)
		target := filepath.Join(tdir, fmt.Sprintf("t%d%s", l.serial, filepath.Ext(name)))
		if err := os.WriteFile(target, f.Data, 0o644); err == nil {
			f.Link = target
		}
	}
	return f
}

// NewInvalidFile draws an invalid file under a Spec name.
func (l *Layout) NewInvalidFile(t *rapid.T, label, dir, name string) *File {
	l.serial++
	kind := rapid.SampledFrom([]string{BadSyntax, BadSemantic, Empty}).Draw(t, label+"badKind")
	f := &File{Name: name, Kind: kind, Marker: fmt.Sprintf("%s/%s@%d", dir, name, l.serial)}
	vendor := rapid.SampledFrom(Vendors).Draw(t, label+"vendor")
	dev := rapid.SampledFrom(DevNames).Draw(t, label+"dev")
	switch kind {
	case BadSyntax:
		f.Data = []byte(rapid.SampledFrom([]string{"{bad", "cdiVersion: [", "\t- x: y\n  z", "{\"cdiVersion\":\"0.6.0\",", "%YAML 9.9\n---\n@"}).Draw(t, label+"syntax"))
	case BadSemantic:
		docs := []string{
			`{"kind":"%s/gpu","devices":[{"name":"%s","containerEdits":{"env":["M=invalid"]}}]}`,                                                                                                                                 // no version
			`{"cdiVersion":"0.6.0","kind":"%s/gpu","devices":[{"name":"%s","containerEdits":{"env":["NOASSIGNMENT"]}}]}`,                                                                                                         // bad env
			`{"cdiVersion":"0.6.0","kind":"%s/gpu","devices":[{"name":"%s","containerEdits":{}}]}`,                                                                                                                               // empty edits
			`{"cdiVersion":"0.6.0","kind":"%s/gpu","devices":[{"name":"%s","containerEdits":{"env":["M=invalid"]},"unknownField":1}]}`,                                                                                           // unknown field
			`{"cdiVersion":"0.3.0","kind":"%s/net.x","devices":[{"name":"%s","containerEdits":{"env":["M=invalid"]}}]}`,                                                                                                          // version too low for dotted class
			`{"cdiVersion":"0.6.0","kind":"%s/gpu","devices":[{"name":"%s","containerEdits":{"env":["M=invalid"]}},{"name":"d0","containerEdits":{"env":["M=invalid"]}},{"name":"d0","containerEdits":{"env":["M=invalid2"]}}]}`, // duplicate device
		}
		f.Data = []byte(fmt.Sprintf(rapid.SampledFrom(docs).Draw(t, label+"semantic"), vendor, dev))
	case Empty:
		// no document at all: zero bytes, or bytes that hold no document node
		f.Data = []byte(rapid.SampledFrom([]string{"", "", "\n", "  \n\t\n", "---\n", "# just a comment\n", "null\n", "~", "--- null\n...\n"}).Draw(t, label+"blank"))
	}
	return f
}

// Options steer Generate.
type Options struct {
	Edits        EditsFunc
	MaxSlots     int  // default 4
	MaxFiles     int  // per directory, default 4
	NoMissing    bool // every pool directory exists
	NoRepeat     bool // no directory occurs twice in the list
	NoInvalid    bool // only valid Spec files and ignored entries
	NoIgnored    bool // no non-Spec names, no subdirectories
	SimpleSpell  bool // every slot is spelled with its clean path
	DistinctDevs bool // every qualified name is defined by at most one file (no shadowing, no conflicts)
	Links        bool // valid Spec files may be symbolic links to regular files kept elsewhere
}

// Generate draws a layout below root (not yet written to disk).
func Generate(t *rapid.T, root string, o Options) *Layout {
	if o.MaxSlots == 0 {
		o.MaxSlots = 4
	}
	if o.MaxFiles == 0 {
		o.MaxFiles = 4
	}
	l := &Layout{Root: root, AllowLinks: o.Links}
	for i := 0; i < 4; i++ {
		l.Pool = append(l.Pool, &Dir{Name: fmt.Sprintf("dir%d", i), Exists: true, Files: map[string]*File{}, Subdirs: map[string]map[string]*File{}})
	}
	nSlots := rapid.IntRange(0, o.MaxSlots).Draw(t, "nSlots")
	if nSlots == 0 && rapid.IntRange(0, 3).Draw(t, "reallyNoSlots") != 0 {
		nSlots = 2
	}
	used := map[int]bool{}
	for i := 0; i < nSlots; i++ {
		d := rapid.IntRange(0, len(l.Pool)-1).Draw(t, fmt.Sprintf("slot%d", i))
		if o.NoRepeat && used[d] {
			for used[d] {
				d = (d + 1) % len(l.Pool)
			}
		}
		used[d] = true
		l.Slots = append(l.Slots, d)
		p := l.Path(d)
		if !o.SimpleSpell {
			switch rapid.IntRange(0, 7).Draw(t, fmt.Sprintf("spell%d", i)) {
			case 0:
				p = p + "/"
			case 1:
				p = filepath.Join(l.Root, "dir0") + "/../" + l.Pool[d].Name
			case 2:
				p = l.Root + "/./" + l.Pool[d].Name
			}
		}
		l.Spelling = append(l.Spelling, p)
	}
	usedNames := map[string]bool{}
	for di, d := range l.Pool {
		// dir0 always exists, so that state machines always have an enabled action
		if !o.NoMissing && di > 0 && rapid.IntRange(0, 5).Draw(t, fmt.Sprintf("dir%dMissing", di)) == 0 {
			d.Exists = false
			continue
		}
		nFiles := rapid.IntRange(0, o.MaxFiles).Draw(t, fmt.Sprintf("dir%dFiles", di))
		for fi := 0; fi < nFiles; fi++ {
			label := fmt.Sprintf("dir%df%d", di, fi)
			k := rapid.IntRange(0, 9).Draw(t, label+"kind")
			switch {
			case k <= 5:
				name := rapid.SampledFrom(specFileNames).Draw(t, label+"name")
				f := l.NewValidFile(t, label, d.Name, name, o.Edits, "", nil)
				if o.DistinctDevs {
					var keep []specs.Device
					for _, dev := range f.Spec.Devices {
						q := f.Spec.Kind + "=" + dev.Name
						if !usedNames[q] {
							keep = append(keep, dev)
						}
					}
					if len(keep) == 0 || d.Files[name] != nil {
						continue
					}
					for _, dev := range keep {
						usedNames[f.Spec.Kind+"="+dev.Name] = true
					}
					f.Spec.Devices = keep
					f.Data, _ = json.Marshal(f.Spec)
				}
				d.Files[name] = f
			case k <= 7:
				if o.NoInvalid {
					continue
				}
				name := rapid.SampledFrom(specFileNames).Draw(t, label+"name")
				if o.DistinctDevs && d.Files[name] != nil {
					continue
				}
				d.Files[name] = l.NewInvalidFile(t, label, d.Name, name)
			case k == 8:
				if o.NoIgnored {
					continue
				}
				if rapid.IntRange(0, 2).Draw(t, label+"special") == 0 {
					// a named pipe or a socket next to the Spec files (plugins keep such things there)
					name := rapid.SampledFrom(specialFileNames).Draw(t, label+"name")
					l.serial++
					d.Files[name] = &File{Name: name, Kind: rapid.SampledFrom([]string{Fifo, Socket}).Draw(t, label+"specialKind"), Marker: fmt.Sprintf("%s/%s@%d", d.Name, name, l.serial)}
					continue
				}
				name := rapid.SampledFrom(nonSpecFileNames).Draw(t, label+"name")
				d.Files[name] = l.NewValidFile(t, label, d.Name, name, o.Edits, "", nil)
			default:
				if o.NoIgnored {
					continue
				}
				sub := rapid.SampledFrom([]string{"sub", "sub.json", "nested.yaml"}).Draw(t, label+"sub")
				if _, isFile := d.Files[sub]; isFile {
					continue
				}
				f := l.NewValidFile(t, label, d.Name+"/"+sub, "inner.json", o.Edits, "", nil)
				d.Subdirs[sub] = map[string]*File{"inner.json": f}
			}
		}
		// one directory in eight also holds an exact copy of one of its valid files under another Spec name
		// (a backup left behind, the same Spec in the other encoding's name): its devices then have two
		// definitions in this directory
		if label := fmt.Sprintf("dir%d", di); !o.DistinctDevs && !o.NoInvalid && rapid.IntRange(0, 7).Draw(t, label+"copy") == 0 {
			for _, n := range d.SortedFileNames() {
				if f := d.Files[n]; f.Kind == Valid && f.Link == "" && IsSpecName(n) {
					cp := *f
					cp.Name = rapid.SampledFrom([]string{"zz-copy.json", "0-copy.yaml", n + ".yaml"}).Draw(t, label+"copyName")
					if d.Files[cp.Name] == nil {
						d.Files[cp.Name] = &cp
					}
					break
				}
			}
		}
		// a file and a subdirectory can not share a name
		for sub := range d.Subdirs {
			delete(d.Files, sub)
		}
	}
	if !o.DistinctDevs && rapid.IntRange(0, 1).Draw(t, "scenario") == 0 {
		l.overlayScenario(t, o)
	}
	return l
}

// overlayScenario forces one of the interesting shapes for one qualified name.
func (l *Layout) overlayScenario(t *rapid.T, o Options) {
	// distinct existing directories in slot order
	var order []int
	seen := map[int]bool{}
	for _, d := range l.Slots {
		if !seen[d] && l.Pool[d].Exists {
			seen[d] = true
			order = append(order, d)
		}
	}
	if len(order) < 2 {
		return
	}
	kind := rapid.SampledFrom(Vendors).Draw(t, "scVendor") + "/" + rapid.SampledFrom(Classes).Draw(t, "scClass")
	dev := rapid.SampledFrom(DevNames).Draw(t, "scDev")
	lo, hi := order[0], order[len(order)-1]
	put := func(d int, name string, valid bool) {
		dir := l.Pool[d]
		delete(dir.Subdirs, name)
		if valid {
			dir.Files[name] = l.NewValidFile(t, "sc"+name, dir.Name, name, o.Edits, kind, []string{dev})
		} else {
			dir.Files[name] = l.NewInvalidFile(t, "sc"+name, dir.Name, name)
		}
	}
	switch rapid.SampledFrom([]string{"shadowed", "conflict-top", "conflict-below", "three-way", "only-invalid-top", "conflict-both"}).Draw(t, "scenarioKind") {
	case "shadowed":
		put(lo, "s1.json", true)
		put(hi, "s2.yaml", true)
	case "conflict-top":
		put(lo, "s1.json", true)
		put(hi, "s2.yaml", true)
		put(hi, "s3.json", true)
	case "conflict-below":
		put(lo, "s1.json", true)
		put(lo, "s2.yaml", true)
		put(hi, "s3.json", true)
	case "three-way":
		put(hi, "s1.json", true)
		put(hi, "s2.yaml", true)
		put(hi, "s3.json", true)
	case "only-invalid-top":
		if !o.NoInvalid {
			put(hi, "s2.yaml", false)
		}
		put(lo, "s1.json", true)
	case "conflict-both":
		put(lo, "s1.json", true)
		put(lo, "s2.yaml", true)
		put(hi, "s3.json", true)
		put(hi, "s4.yaml", true)
	}
}

// Materialise writes the whole layout to disk (Root must exist and be empty).
func (l *Layout) Materialise() error {
	for i, d := range l.Pool {
		if !d.Exists {
			continue
		}
		p := l.Path(i)
		if err := os.MkdirAll(p, 0o755); err != nil {
			return err
		}
		for _, f := range d.Files {
			if err := writeEntry(filepath.Join(p, f.Name), f); err != nil {
				return err
			}
		}
		for sub, files := range d.Subdirs {
			if err := os.MkdirAll(filepath.Join(p, sub), 0o755); err != nil {
				return err
			}
			for _, f := range files {
				if err := os.WriteFile(filepath.Join(p, sub, f.Name), f.Data, 0o644); err != nil {
					return err
				}
			}
		}
	}
	return nil
}

// PutFile adds or overwrites a file in pool directory d, on disk and in the model.
func (l *Layout) PutFile(d int, f *File) error {
	dir := l.Pool[d]
	if !dir.Exists {
		return fmt.Errorf("directory %s does not exist", dir.Name)
	}
	if _, isSub := dir.Subdirs[f.Name]; isSub {
		return fmt.Errorf("%s is a subdirectory", f.Name)
	}
	// write to a temporary name outside the Spec name space, then rename: readers never see a partial file
	tmp := filepath.Join(l.Path(d), ".verif-tmp")
	if err := writeEntry(tmp, f); err != nil {
		return err
	}
	if err := os.Rename(tmp, filepath.Join(l.Path(d), f.Name)); err != nil {
		return err
	}
	dir.Files[f.Name] = f
	return nil
}

// PutFileInPlace writes a regular file's content over the existing entry (truncate and write: what an editor
// or a shell redirection does), or creates it.
func (l *Layout) PutFileInPlace(d int, f *File) error {
	dir := l.Pool[d]
	if !dir.Exists {
		return fmt.Errorf("directory %s does not exist", dir.Name)
	}
	if _, isSub := dir.Subdirs[f.Name]; isSub {
		return fmt.Errorf("%s is a subdirectory", f.Name)
	}
	if f.Link != "" || f.Kind == Fifo || f.Kind == Socket {
		return l.PutFile(d, f)
	}
	p := filepath.Join(l.Path(d), f.Name)
	if st, err := os.Lstat(p); err == nil && !st.Mode().IsRegular() {
		_ = os.Remove(p)
	}
	if err := os.WriteFile(p, f.Data, 0o644); err != nil {
		return err
	}
	dir.Files[f.Name] = f
	return nil
}

// RewriteSameSizeSameTimes rewrites a regular valid Spec file in place with content of exactly the same size (the
// name of its first device changes in its last character) and puts the file's previous modification time back
// (what cp -p or rsync -t leave behind): size, inode and times say "unchanged", the content does not.
func (l *Layout) RewriteSameSizeSameTimes(d int, name string) error {
	dir := l.Pool[d]
	f := dir.Files[name]
	if f == nil || f.Kind != Valid || f.Link != "" || f.Spec == nil || len(f.Spec.Devices) == 0 {
		return fmt.Errorf("%s is not a regular valid Spec file", name)
	}
	p := filepath.Join(l.Path(d), name)
	st, err := os.Lstat(p)
	if err != nil || !st.Mode().IsRegular() {
		return fmt.Errorf("%s is not a regular file", name)
	}
	old := f.Spec.Devices[0].Name
	if old == "" {
		return fmt.Errorf("empty device name")
	}
	last := old[len(old)-1]
	repl := byte('x')
	if last == 'x' {
		repl = 'y'
	}
	newName := old[:len(old)-1] + string(repl)
	for _, dv := range f.Spec.Devices {
		if dv.Name == newName {
			return fmt.Errorf("device name taken")
		}
	}
	var cp specs.Spec
	b, _ := json.Marshal(f.Spec)
	_ = json.Unmarshal(b, &cp)
	cp.Devices[0].Name = newName
	var data []byte
	if strings.HasSuffix(name, ".json") {
		data, _ = json.Marshal(&cp)
	} else {
		data = gen.EncodeYAML(gen.ToTree(&cp))
	}
	if len(data) != len(f.Data) {
		return fmt.Errorf("size differs")
	}
	if err := os.WriteFile(p, data, 0o644); err != nil {
		return err
	}
	if err := os.Chtimes(p, st.ModTime(), st.ModTime()); err != nil {
		return err
	}
	nf := *f
	nf.Spec, nf.Data = &cp, data
	dir.Files[name] = &nf
	return nil
}

// RemoveFile removes a file from pool directory d.
func (l *Layout) RemoveFile(d int, name string) error {
	if err := os.Remove(filepath.Join(l.Path(d), name)); err != nil {
		return err
	}
	delete(l.Pool[d].Files, name)
	return nil
}

// RenameFile renames an entry of pool directory d inside the directory (to == "" moves it out of every
// Spec directory instead). Under a name that is not a Spec name the entry is ignored by the scan.
func (l *Layout) RenameFile(d int, from, to string) error {
	dir := l.Pool[d]
	f := dir.Files[from]
	if f == nil {
		return fmt.Errorf("no entry %s in %s", from, dir.Name)
	}
	dst := filepath.Join(l.Root, "moved-out-"+dir.Name+"-"+from)
	if to != "" {
		if _, isSub := dir.Subdirs[to]; isSub {
			return fmt.Errorf("%s is a subdirectory", to)
		}
		dst = filepath.Join(l.Path(d), to)
	}
	if err := os.Rename(filepath.Join(l.Path(d), from), dst); err != nil {
		return err
	}
	delete(dir.Files, from)
	if to != "" {
		nf := *f
		nf.Name = to
		if !IsSpecName(to) {
			nf.Kind = NonSpec
		}
		dir.Files[to] = &nf
	}
	return nil
}

// RemoveDir removes pool directory d with its content.
func (l *Layout) RemoveDir(d int) error {
	if err := os.RemoveAll(l.Path(d)); err != nil {
		return err
	}
	l.Pool[d].Exists = false
	l.Pool[d].Files = map[string]*File{}
	l.Pool[d].Subdirs = map[string]map[string]*File{}
	return nil
}

// MakeDir creates pool directory d (empty).
func (l *Layout) MakeDir(d int) error {
	if err := os.MkdirAll(l.Path(d), 0o755); err != nil {
		return err
	}
	l.Pool[d].Exists = true
	return nil
}

// SortedFileNames lists the files of a directory in name order.
func (d *Dir) SortedFileNames() []string {
	var out []string
	for n := range d.Files {
		out = append(out, n)
	}
	sort.Strings(out)
	return out
}

// Describe renders the layout for samples and failure messages.
func (l *Layout) Describe() any {
	type fd struct {
		Name, Kind, Spec string
	}
	out := map[string]any{}
	var slots []string
	for i, s := range l.Slots {
		slots = append(slots, fmt.Sprintf("%d:%s(%s)", i, l.Pool[s].Name, strings.TrimPrefix(l.Spelling[i], l.Root+"/")))
	}
	out["slots"] = slots
	for _, d := range l.Pool {
		if !d.Exists {
			out[d.Name] = "missing"
			continue
		}
		var fs []fd
		for _, n := range d.SortedFileNames() {
			f := d.Files[n]
			x := fd{Name: n, Kind: f.Kind}
			if f.Link != "" && f.Kind == Valid {
				x.Kind = "valid(symlink)"
			}
			if f.Spec != nil {
				var devs []string
				for _, dv := range f.Spec.Devices {
					devs = append(devs, dv.Name)
				}
				x.Spec = f.Spec.Kind + "=" + strings.Join(devs, ",")
			}
			fs = append(fs, x)
		}
		for sub := range d.Subdirs {
			fs = append(fs, fd{Name: sub + "/", Kind: "subdir"})
		}
		out[d.Name] = fs
	}
	return out
}

// Desc is a compact, hand-writable description of a layout (regression files).
type Desc struct {
	Slots []int                          `json:"slots"`
	Dirs  map[string]map[string]FileDesc `json:"dirs"` // directory name -> file name -> content; absent directory = missing
}

// FileDesc describes one file: a valid Spec (Kind + Devs) or, if Bad is set,
// an invalid one ("syntax", "semantic", "empty").
type FileDesc struct {
	Kind string   `json:"kind,omitempty"`
	Devs []string `json:"devs,omitempty"`
	Bad  string   `json:"bad,omitempty"`
}

// FromDesc builds a layout below root from a description.
func FromDesc(root string, d Desc) *Layout {
	l := &Layout{Root: root}
	for i := 0; i < 4; i++ {
		name := fmt.Sprintf("dir%d", i)
		dir := &Dir{Name: name, Files: map[string]*File{}, Subdirs: map[string]map[string]*File{}}
		if files, ok := d.Dirs[name]; ok {
			dir.Exists = true
			for fn, fd := range files {
				l.serial++
				marker := fmt.Sprintf("%s/%s@%d", name, fn, l.serial)
				f := &File{Name: fn, Marker: marker}
				switch fd.Bad {
				case "syntax":
					f.Kind, f.Data = BadSyntax, []byte("{bad")
				case "semantic":
					f.Kind, f.Data = BadSemantic, []byte(`{"kind":"v1.com/gpu","devices":[{"name":"d0","containerEdits":{"env":["M=invalid"]}}]}`)
				case "empty":
					f.Kind, f.Data = Empty, []byte{}
				case Fifo, Socket:
					f.Kind = fd.Bad
				default:
					f.Kind = Valid
					if !IsSpecName(fn) {
						f.Kind = NonSpec
					}
					s := &specs.Spec{Version: "0.6.0", Kind: fd.Kind}
					for _, dv := range fd.Devs {
						s.Devices = append(s.Devices, specs.Device{Name: dv, ContainerEdits: specs.ContainerEdits{Env: []string{"M=" + marker + "#" + dv}}})
					}
					f.Spec = s
					f.Data, _ = json.Marshal(s)
				}
				dir.Files[fn] = f
			}
		}
		l.Pool = append(l.Pool, dir)
	}
	l.Slots = d.Slots
	for _, s := range d.Slots {
		l.Spelling = append(l.Spelling, l.Path(s))
	}
	return l
}
