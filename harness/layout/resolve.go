package layout

import (
	"encoding/json"
	"fmt"
	"path/filepath"
	"sort"
	"strings"

	"tags.cncf.io/container-device-interface/pkg/cdi"
	specs "tags.cncf.io/container-device-interface/specs-go"
)

// Winner is the definition a qualified name resolves to.
type Winner struct {
	Path     string
	Priority int
	File     *File
	Device   *specs.Device
}

// SpecRef is one (priority, file) pair of a vendor.
type SpecRef struct {
	Path     string
	Priority int
	File     *File
}

// Resolution is what the statement of C01 says a cache over the layout holds.
type Resolution struct {
	Devices       map[string]Winner // resolvable qualified names
	Defined       map[string]bool   // qualified names defined by some valid file in a configured directory
	Conflicted    map[string]bool   // defined, but the highest-priority directory defines them in several files
	Vendors       []string
	Classes       []string
	Specs         map[string][]SpecRef // per vendor, in scan order (priority, then name)
	BadFiles      map[string]string    // path -> kind of every invalid Spec-named file in a configured directory
	ConflictFiles map[string]bool      // paths of valid files taking part in a same-priority conflict at any level
	GoodFiles     map[string]bool      // valid, in no conflict at all
}

// Resolve computes the reference resolution: for each qualified name q let I
// be the largest index in the configured list whose directory holds a valid
// Spec file defining q; q resolves iff exactly one valid file of that
// directory defines it, to that file, with priority I.
func Resolve(l *Layout) *Resolution {
	r := &Resolution{Devices: map[string]Winner{}, Defined: map[string]bool{}, Conflicted: map[string]bool{}, Specs: map[string][]SpecRef{},
		BadFiles: map[string]string{}, ConflictFiles: map[string]bool{}, GoodFiles: map[string]bool{}}
	vend, cls := map[string]bool{}, map[string]bool{}
	type def struct {
		prio int
		file *File
		dev  *specs.Device
		path string
	}
	defs := map[string][]def{}
	for prio, di := range l.Slots {
		d := l.Pool[di]
		if !d.Exists {
			continue
		}
		for _, name := range d.SortedFileNames() {
			f := d.Files[name]
			if !IsSpecName(name) {
				continue
			}
			path := filepath.Join(l.Path(di), name)
			if f.Kind != Valid {
				r.BadFiles[path] = f.Kind
				continue
			}
			r.GoodFiles[path] = true
			parts := strings.SplitN(f.Spec.Kind, "/", 2)
			vend[parts[0]] = true
			cls[parts[1]] = true
			r.Specs[parts[0]] = append(r.Specs[parts[0]], SpecRef{Path: path, Priority: prio, File: f})
			for i := range f.Spec.Devices {
				q := f.Spec.Kind + "=" + f.Spec.Devices[i].Name
				defs[q] = append(defs[q], def{prio, f, &f.Spec.Devices[i], path})
				r.Defined[q] = true
			}
		}
	}
	for q, ds := range defs {
		top := -1
		for _, d := range ds {
			if d.prio > top {
				top = d.prio
			}
		}
		var at []def
		for _, d := range ds {
			if d.prio == top {
				at = append(at, d)
			}
		}
		if len(at) == 1 {
			r.Devices[q] = Winner{Path: at[0].path, Priority: top, File: at[0].file, Device: at[0].dev}
		} else {
			r.Conflicted[q] = true
		}
		// files in a same-priority conflict at any level may carry an error entry
		byPrio := map[int][]def{}
		for _, d := range ds {
			byPrio[d.prio] = append(byPrio[d.prio], d)
		}
		for _, g := range byPrio {
			if len(g) > 1 {
				for _, d := range g {
					r.ConflictFiles[d.path] = true
					delete(r.GoodFiles, d.path)
				}
			}
		}
	}
	for v := range vend {
		r.Vendors = append(r.Vendors, v)
	}
	for c := range cls {
		r.Classes = append(r.Classes, c)
	}
	sort.Strings(r.Vendors)
	sort.Strings(r.Classes)
	return r
}

// SortedDevices lists the resolvable names.
func (r *Resolution) SortedDevices() []string {
	var out []string
	for q := range r.Devices {
		out = append(out, q)
	}
	sort.Strings(out)
	return out
}

// AllNames lists every qualified name of the pools.
func AllNames() []string {
	var out []string
	for _, v := range Vendors {
		for _, c := range Classes {
			for _, d := range DevNames {
				out = append(out, v+"/"+c+"="+d)
			}
		}
	}
	return out
}

func deviceJSON(d *specs.Device) string { b, _ := json.Marshal(d); return string(b) }

// DevView is what the query API tells about one device.
type DevView struct {
	Path     string `json:"path"`
	Priority int    `json:"priority"`
	Device   string `json:"device"` // JSON of the device definition
	Spec     string `json:"spec"`   // JSON of the Spec it belongs to
	QName    string `json:"qname"`  // GetQualifiedName()
}

// SpecView is one Spec returned by GetVendorSpecs.
type SpecView struct {
	Path     string `json:"path"`
	Priority int    `json:"priority"`
	Vendor   string `json:"vendor"`
	Spec     string `json:"spec"`
	NErrors  int    `json:"nErrors"` // len(GetSpecErrors(spec))
}

// View is everything observable through the query API of a cache.
type View struct {
	Devices     []string              `json:"devices"`
	Dev         map[string]*DevView   `json:"dev"` // GetDevice for every name of the pools and every listed name
	Vendors     []string              `json:"vendors"`
	Classes     []string              `json:"classes"`
	VendorSpecs map[string][]SpecView `json:"vendorSpecs"`
	Errors      map[string][]string   `json:"errors"`
	RefreshErr  string                `json:"refreshErr"`
}

// Observe queries the cache.
func Observe(c *cdi.Cache) *View {
	v := &View{Dev: map[string]*DevView{}, VendorSpecs: map[string][]SpecView{}, Errors: map[string][]string{}}
	v.Devices = c.ListDevices()
	names := append(AllNames(), v.Devices...)
	for _, q := range names {
		dev := c.GetDevice(q)
		if dev == nil {
			continue
		}
		sj, _ := json.Marshal(dev.GetSpec().Spec)
		v.Dev[q] = &DevView{Path: dev.GetSpec().GetPath(), Priority: dev.GetSpec().GetPriority(), Device: deviceJSON(dev.Device), Spec: string(sj), QName: dev.GetQualifiedName()}
	}
	v.Vendors = c.ListVendors()
	v.Classes = c.ListClasses()
	for _, vd := range append(append(append([]string{}, Vendors...), "unknown.vendor"), v.Vendors...) {
		if _, done := v.VendorSpecs[vd]; done {
			continue
		}
		v.VendorSpecs[vd] = []SpecView{}
		for _, s := range c.GetVendorSpecs(vd) {
			b, _ := json.Marshal(s.Spec)
			v.VendorSpecs[vd] = append(v.VendorSpecs[vd], SpecView{Path: s.GetPath(), Priority: s.GetPriority(), Vendor: s.GetVendor(), Spec: string(b), NErrors: len(c.GetSpecErrors(s))})
		}
	}
	for k, errs := range c.GetErrors() {
		v.Errors[k] = []string{}
		for _, e := range errs {
			v.Errors[k] = append(v.Errors[k], fmt.Sprint(e))
		}
	}
	return v
}

// CompareCache checks every query of the cache against the resolution.
func CompareCache(c *cdi.Cache, l *Layout, r *Resolution) string {
	return CompareView(Observe(c), l, r)
}

// CompareView checks an observation against the resolution. It returns ""
// if they agree.
func CompareView(v *View, l *Layout, r *Resolution) string {
	want := r.SortedDevices()
	if strings.Join(v.Devices, " ") != strings.Join(want, " ") {
		return fmt.Sprintf("ListDevices = %v, want %v", v.Devices, want)
	}
	for _, q := range AllNames() {
		dev := v.Dev[q]
		w, ok := r.Devices[q]
		if !ok {
			if dev != nil {
				return fmt.Sprintf("GetDevice(%q) resolves to %s although it must not resolve (defined=%v conflicted=%v)", q, dev.Path, r.Defined[q], r.Conflicted[q])
			}
			continue
		}
		if dev == nil {
			return fmt.Sprintf("GetDevice(%q) = nil, want the definition in %s", q, w.Path)
		}
		if dev.Path != w.Path || dev.Priority != w.Priority {
			return fmt.Sprintf("GetDevice(%q) resolves to %s (priority %d), want %s (priority %d)", q, dev.Path, dev.Priority, w.Path, w.Priority)
		}
		if a, b := dev.Device, deviceJSON(w.Device); a != b {
			return fmt.Sprintf("GetDevice(%q) has definition %s, want %s", q, a, b)
		}
		if dev.QName != q {
			return fmt.Sprintf("GetDevice(%q).GetQualifiedName() = %q", q, dev.QName)
		}
		wantJSON, _ := json.Marshal(w.File.Spec)
		if dev.Spec != string(wantJSON) {
			return fmt.Sprintf("Spec of %q is %s, want %s", q, dev.Spec, wantJSON)
		}
	}
	if strings.Join(v.Vendors, " ") != strings.Join(r.Vendors, " ") {
		return fmt.Sprintf("ListVendors = %v, want %v", v.Vendors, r.Vendors)
	}
	if strings.Join(v.Classes, " ") != strings.Join(r.Classes, " ") {
		return fmt.Sprintf("ListClasses = %v, want %v", v.Classes, r.Classes)
	}
	for _, vd := range append(append([]string{}, Vendors...), "unknown.vendor") {
		// compared as a set of paths with their content: a directory listed twice is
		// scanned twice, whether its Specs are then listed once or twice is not
		// something the statement fixes
		wantSet := map[string]string{}
		for _, ref := range r.Specs[vd] {
			b, _ := json.Marshal(ref.File.Spec)
			wantSet[ref.Path] = string(b)
		}
		gotSet := map[string]string{}
		for _, s := range v.VendorSpecs[vd] {
			gotSet[s.Path] = s.Spec
			if s.Vendor != vd {
				return fmt.Sprintf("GetVendorSpecs(%q) returned a Spec of vendor %q", vd, s.Vendor)
			}
		}
		if len(gotSet) != len(wantSet) {
			return fmt.Sprintf("GetVendorSpecs(%q) = %v, want %v", vd, keys(gotSet), keys(wantSet))
		}
		for p, js := range wantSet {
			if gotSet[p] != js {
				return fmt.Sprintf("GetVendorSpecs(%q): Spec %s is %s, want %s", vd, p, gotSet[p], js)
			}
		}
	}
	// errors: no key may be a valid file that is in no conflict
	for k := range v.Errors {
		if r.GoodFiles[k] {
			return fmt.Sprintf("GetErrors() has an entry for %s, a valid Spec file without conflicts", k)
		}
	}
	return ""
}

func keys(m map[string]string) []string {
	var out []string
	for k := range m {
		out = append(out, k)
	}
	sort.Strings(out)
	return out
}
