package layout

import (
	"encoding/json"
	"fmt"
	"path/filepath"
	"sort"
	"strings"

	"tags.cncf.io/container-device-interface/pkg/cdi"
	specs "tags.cncf.io/container-device-interface/specs-go"
)

// Winner is the definition a qualified name resolves to.
type Winner struct {
	Path     string
	Priority int
	File     *File
	Device   *specs.Device
}

// SpecRef is one (priority, file) pair of a vendor.
type SpecRef struct {
	Path     string
	Priority int
	File     *File
}

// Resolution is what the statement of C01 says a cache over the layout holds.
type Resolution struct {
	Devices    map[string]Winner     // resolvable qualified names
	Defined    map[string]bool       // qualified names defined by some valid file in a configured directory
	Conflicted map[string]bool       // defined, but the highest-priority directory defines them in several files
	Vendors    []string
	Classes    []string
	Specs      map[string][]SpecRef  // per vendor, in scan order (priority, then name)
	BadFiles   map[string]string     // path -> kind of every invalid Spec-named file in a configured directory
	ConflictFiles map[string]bool    // paths of valid files taking part in a same-priority conflict at any level
	GoodFiles  map[string]bool       // valid, in no conflict at all
}

// Resolve computes the reference resolution: for each qualified name q let I
// be the largest index in the configured list whose directory holds a valid
// Spec file defining q; q resolves iff exactly one valid file of that
// directory defines it, to that file, with priority I.
func Resolve(l *Layout) *Resolution {
	r := &Resolution{Devices: map[string]Winner{}, Defined: map[string]bool{}, Conflicted: map[string]bool{}, Specs: map[string][]SpecRef{},
		BadFiles: map[string]string{}, ConflictFiles: map[string]bool{}, GoodFiles: map[string]bool{}}
	vend, cls := map[string]bool{}, map[string]bool{}
	type def struct {
		prio int
		file *File
		dev  *specs.Device
		path string
	}
	defs := map[string][]def{}
	for prio, di := range l.Slots {
		d := l.Pool[di]
		if !d.Exists {
			continue
		}
		for _, name := range d.SortedFileNames() {
			f := d.Files[name]
			if !IsSpecName(name) {
				continue
			}
			path := filepath.Join(l.Path(di), name)
			if f.Kind != Valid {
				r.BadFiles[path] = f.Kind
				continue
			}
			r.GoodFiles[path] = true
			parts := strings.SplitN(f.Spec.Kind, "/", 2)
			vend[parts[0]] = true
			cls[parts[1]] = true
			r.Specs[parts[0]] = append(r.Specs[parts[0]], SpecRef{Path: path, Priority: prio, File: f})
			for i := range f.Spec.Devices {
				q := f.Spec.Kind + "=" + f.Spec.Devices[i].Name
				defs[q] = append(defs[q], def{prio, f, &f.Spec.Devices[i], path})
				r.Defined[q] = true
			}
		}
	}
	for q, ds := range defs {
		top := -1
		for _, d := range ds {
			if d.prio > top {
				top = d.prio
			}
		}
		var at []def
		for _, d := range ds {
			if d.prio == top {
				at = append(at, d)
			}
		}
		if len(at) == 1 {
			r.Devices[q] = Winner{Path: at[0].path, Priority: top, File: at[0].file, Device: at[0].dev}
		} else {
			r.Conflicted[q] = true
		}
		// files in a same-priority conflict at any level may carry an error entry
		byPrio := map[int][]def{}
		for _, d := range ds {
			byPrio[d.prio] = append(byPrio[d.prio], d)
		}
		for _, g := range byPrio {
			if len(g) > 1 {
				for _, d := range g {
					r.ConflictFiles[d.path] = true
					delete(r.GoodFiles, d.path)
				}
			}
		}
	}
	for v := range vend {
		r.Vendors = append(r.Vendors, v)
	}
	for c := range cls {
		r.Classes = append(r.Classes, c)
	}
	sort.Strings(r.Vendors)
	sort.Strings(r.Classes)
	return r
}

// SortedDevices lists the resolvable names.
func (r *Resolution) SortedDevices() []string {
	var out []string
	for q := range r.Devices {
		out = append(out, q)
	}
	sort.Strings(out)
	return out
}

// AllNames lists every qualified name of the pools.
func AllNames() []string {
	var out []string
	for _, v := range Vendors {
		for _, c := range Classes {
			for _, d := range DevNames {
				out = append(out, v+"/"+c+"="+d)
			}
		}
	}
	return out
}

func deviceJSON(d *specs.Device) string { b, _ := json.Marshal(d); return string(b) }

// CompareCache checks every query of the cache against the resolution. It
// returns "" if they agree. dirKeys: the configured directories (their error
// keys are not file errors).
func CompareCache(c *cdi.Cache, l *Layout, r *Resolution) string {
	want := r.SortedDevices()
	got := c.ListDevices()
	if strings.Join(got, " ") != strings.Join(want, " ") {
		return fmt.Sprintf("ListDevices = %v, want %v", got, want)
	}
	for _, q := range AllNames() {
		dev := c.GetDevice(q)
		w, ok := r.Devices[q]
		if !ok {
			if dev != nil {
				return fmt.Sprintf("GetDevice(%q) resolves to %s although it must not resolve (defined=%v conflicted=%v)", q, dev.GetSpec().GetPath(), r.Defined[q], r.Conflicted[q])
			}
			continue
		}
		if dev == nil {
			return fmt.Sprintf("GetDevice(%q) = nil, want the definition in %s", q, w.Path)
		}
		if dev.GetSpec().GetPath() != w.Path || dev.GetSpec().GetPriority() != w.Priority {
			return fmt.Sprintf("GetDevice(%q) resolves to %s (priority %d), want %s (priority %d)", q, dev.GetSpec().GetPath(), dev.GetSpec().GetPriority(), w.Path, w.Priority)
		}
		if a, b := deviceJSON(dev.Device), deviceJSON(w.Device); a != b {
			return fmt.Sprintf("GetDevice(%q) has definition %s, want %s", q, a, b)
		}
		if dev.GetQualifiedName() != q {
			return fmt.Sprintf("GetDevice(%q).GetQualifiedName() = %q", q, dev.GetQualifiedName())
		}
		specJSON, _ := json.Marshal(dev.GetSpec().Spec)
		wantJSON, _ := json.Marshal(w.File.Spec)
		if string(specJSON) != string(wantJSON) {
			return fmt.Sprintf("Spec of %q is %s, want %s", q, specJSON, wantJSON)
		}
	}
	if gv := c.ListVendors(); strings.Join(gv, " ") != strings.Join(r.Vendors, " ") {
		return fmt.Sprintf("ListVendors = %v, want %v", gv, r.Vendors)
	}
	if gc := c.ListClasses(); strings.Join(gc, " ") != strings.Join(r.Classes, " ") {
		return fmt.Sprintf("ListClasses = %v, want %v", gc, r.Classes)
	}
	for _, v := range append(append([]string{}, Vendors...), "unknown.vendor") {
		// compared as a set of (path, priority) pairs with their content: a directory
		// listed twice is scanned twice, whether its Specs are then listed once or
		// twice is not something the statement fixes
		wantSet := map[string]string{}
		for _, ref := range r.Specs[v] {
			b, _ := json.Marshal(ref.File.Spec)
			wantSet[ref.Path] = string(b)
		}
		gotSet := map[string]string{}
		for _, s := range c.GetVendorSpecs(v) {
			b, _ := json.Marshal(s.Spec)
			gotSet[s.GetPath()] = string(b)
			if s.GetVendor() != v {
				return fmt.Sprintf("GetVendorSpecs(%q) returned a Spec of vendor %q", v, s.GetVendor())
			}
		}
		if len(gotSet) != len(wantSet) {
			return fmt.Sprintf("GetVendorSpecs(%q) = %v, want %v", v, keys(gotSet), keys(wantSet))
		}
		for p, js := range wantSet {
			if gotSet[p] != js {
				return fmt.Sprintf("GetVendorSpecs(%q): Spec %s is %s, want %s", v, p, gotSet[p], js)
			}
		}
	}
	// errors: no key may be a valid file that is in no conflict
	for k := range c.GetErrors() {
		if r.GoodFiles[k] {
			return fmt.Sprintf("GetErrors() has an entry for %s, a valid Spec file without conflicts", k)
		}
	}
	return ""
}

func keys(m map[string]string) []string {
	var out []string
	for k := range m {
		out = append(out, k)
	}
	sort.Strings(out)
	return out
}
