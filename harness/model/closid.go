package model

import "strings"

// LegalClosID: an RDT class id must be usable as a Linux file name.
func LegalClosID(s string) bool {
	return len(s) < 4096 && s != "." && s != ".." && !strings.ContainsAny(s, "/\n")
}

// CleanClosID maps an arbitrary string to a legal class id.
func CleanClosID(s string) string {
	s = strings.NewReplacer("/", "_", "\n", "_").Replace(s)
	if s == "." || s == ".." {
		s = "dots"
	}
	if len(s) >= 4096 {
		s = s[:4000]
	}
	return s
}
