package model

import (
	"encoding/json"
	"fmt"
	"math/big"
	"os"
	"path/filepath"
	"regexp"
	"sort"
	"strings"
	"unicode/utf8"
)

// Draft07 is a small JSON-Schema draft-07 evaluator over schema files of one
// directory. It is the reference for what "the shipped schema files say".
// Documents and schemas are trees of map[string]any, []any, string,
// json.Number, bool, nil. Unknown keywords are ignored (as draft-07
// requires); a draft-07 validation keyword that is not implemented makes
// Validate return an error (the caller then refuses to decide).
type Draft07 struct {
	dir   string
	files map[string]any
	root  string
}

// annotation-only or structural keywords that carry no validation
var d7Ignored = map[string]bool{"$schema": true, "$id": true, "$comment": true, "title": true, "description": true, "default": true,
	"examples": true, "definitions": true, "readOnly": true, "writeOnly": true, "format": true, "contentMediaType": true, "contentEncoding": true}

var d7Known = map[string]bool{"type": true, "enum": true, "const": true, "required": true, "properties": true, "patternProperties": true,
	"additionalProperties": true, "items": true, "additionalItems": true, "minItems": true, "maxItems": true, "uniqueItems": true,
	"minLength": true, "maxLength": true, "pattern": true, "minimum": true, "maximum": true, "exclusiveMinimum": true, "exclusiveMaximum": true,
	"multipleOf": true, "minProperties": true, "maxProperties": true, "allOf": true, "anyOf": true, "oneOf": true, "not": true,
	"if": true, "then": true, "else": true, "dependencies": true, "propertyNames": true, "contains": true, "$ref": true}

// LoadDraft07 loads rootFile (e.g. schema.json) from dir; other files of dir
// are loaded when a $ref names them.
func LoadDraft07(dir, rootFile string) (*Draft07, error) {
	d := &Draft07{dir: dir, files: map[string]any{}, root: rootFile}
	if _, err := d.file(rootFile); err != nil {
		return nil, err
	}
	return d, nil
}

func (d *Draft07) file(name string) (any, error) {
	if t, ok := d.files[name]; ok {
		return t, nil
	}
	b, err := os.ReadFile(filepath.Join(d.dir, name))
	if err != nil {
		return nil, err
	}
	dec := json.NewDecoder(strings.NewReader(string(b)))
	dec.UseNumber()
	var t any
	if err := dec.Decode(&t); err != nil {
		return nil, fmt.Errorf("%s: %v", name, err)
	}
	d.files[name] = t
	return t, nil
}

// Validate returns whether doc is valid against the root schema.
func (d *Draft07) Validate(doc any) (valid bool, err error) {
	defer func() {
		if r := recover(); r != nil {
			if e, ok := r.(d7err); ok {
				valid, err = false, fmt.Errorf("%s", string(e))
				return
			}
			panic(r)
		}
	}()
	root, _ := d.file(d.root)
	return d.eval(root, d.root, doc, 0), nil
}

type d7err string

func (d *Draft07) resolve(ref, curFile string) (any, string) {
	file, frag := curFile, ""
	if i := strings.IndexByte(ref, '#'); i >= 0 {
		if i > 0 {
			file = ref[:i]
		}
		frag = ref[i+1:]
	} else {
		file = ref
	}
	if strings.Contains(file, "://") {
		panic(d7err("remote $ref not supported: " + ref))
	}
	t, err := d.file(file)
	if err != nil {
		panic(d7err("cannot load $ref " + ref + ": " + err.Error()))
	}
	if frag == "" {
		return t, file
	}
	if !strings.HasPrefix(frag, "/") {
		panic(d7err("unsupported $ref fragment: " + ref))
	}
	cur := t
	for _, tok := range strings.Split(frag[1:], "/") {
		tok = strings.ReplaceAll(strings.ReplaceAll(tok, "~1", "/"), "~0", "~")
		switch c := cur.(type) {
		case map[string]any:
			n, ok := c[tok]
			if !ok {
				panic(d7err("unresolvable $ref " + ref))
			}
			cur = n
		default:
			panic(d7err("unresolvable $ref " + ref))
		}
	}
	return cur, file
}

func d7num(v any) (*big.Rat, bool) {
	n, ok := v.(json.Number)
	if !ok {
		return nil, false
	}
	r, ok := new(big.Rat).SetString(n.String())
	return r, ok
}

func d7type(v any) string {
	switch x := v.(type) {
	case nil:
		return "null"
	case bool:
		return "boolean"
	case string:
		return "string"
	case json.Number:
		if r, ok := d7num(x); ok && r.IsInt() {
			return "integer"
		}
		return "number"
	case []any:
		return "array"
	case map[string]any:
		return "object"
	}
	return "?"
}

func d7equal(a, b any) bool {
	ta, tb := d7type(a), d7type(b)
	if (ta == "integer" || ta == "number") && (tb == "integer" || tb == "number") {
		ra, _ := d7num(a)
		rb, _ := d7num(b)
		return ra.Cmp(rb) == 0
	}
	if ta != tb {
		return false
	}
	switch x := a.(type) {
	case []any:
		y := b.([]any)
		if len(x) != len(y) {
			return false
		}
		for i := range x {
			if !d7equal(x[i], y[i]) {
				return false
			}
		}
		return true
	case map[string]any:
		y := b.(map[string]any)
		if len(x) != len(y) {
			return false
		}
		for k, v := range x {
			w, ok := y[k]
			if !ok || !d7equal(v, w) {
				return false
			}
		}
		return true
	}
	return a == b
}

func (d *Draft07) eval(schema any, file string, doc any, depth int) bool {
	if depth > 200 {
		panic(d7err("schema recursion too deep"))
	}
	switch s := schema.(type) {
	case bool:
		return s
	case map[string]any:
		return d.evalObj(s, file, doc, depth)
	}
	panic(d7err(fmt.Sprintf("schema is neither an object nor a boolean: %T", schema)))
}

func (d *Draft07) evalObj(s map[string]any, file string, doc any, depth int) bool {
	if ref, ok := s["$ref"].(string); ok {
		// in draft-07 siblings of $ref are ignored
		t, f := d.resolve(ref, file)
		return d.eval(t, f, doc, depth+1)
	}
	keys := make([]string, 0, len(s))
	for k := range s {
		keys = append(keys, k)
	}
	sort.Strings(keys)
	typ := d7type(doc)
	ok := true
	for _, k := range keys {
		v := s[k]
		if d7Ignored[k] || !d7Known[k] {
			continue // unknown keywords are ignored
		}
		switch k {
		case "type":
			match := func(t string) bool { return t == typ || (t == "number" && typ == "integer") }
			switch tv := v.(type) {
			case string:
				ok = ok && match(tv)
			case []any:
				some := false
				for _, t := range tv {
					if ts, _ := t.(string); match(ts) {
						some = true
					}
				}
				ok = ok && some
			}
		case "enum":
			found := false
			for _, e := range v.([]any) {
				if d7equal(e, doc) {
					found = true
				}
			}
			ok = ok && found
		case "const":
			ok = ok && d7equal(v, doc)
		case "required":
			if m, isObj := doc.(map[string]any); isObj {
				for _, r := range v.([]any) {
					if _, has := m[r.(string)]; !has {
						ok = false
					}
				}
			}
		case "properties":
			if m, isObj := doc.(map[string]any); isObj {
				for name, sub := range v.(map[string]any) {
					if val, has := m[name]; has && !d.eval(sub, file, val, depth+1) {
						ok = false
					}
				}
			}
		case "patternProperties":
			if m, isObj := doc.(map[string]any); isObj {
				for pat, sub := range v.(map[string]any) {
					re := d7regexp(pat)
					for name, val := range m {
						if re.MatchString(name) && !d.eval(sub, file, val, depth+1) {
							ok = false
						}
					}
				}
			}
		case "additionalProperties":
			if m, isObj := doc.(map[string]any); isObj {
				props, _ := s["properties"].(map[string]any)
				pats, _ := s["patternProperties"].(map[string]any)
				for name, val := range m {
					if _, named := props[name]; named {
						continue
					}
					matched := false
					for pat := range pats {
						if d7regexp(pat).MatchString(name) {
							matched = true
						}
					}
					if !matched && !d.eval(v, file, val, depth+1) {
						ok = false
					}
				}
			}
		case "items":
			if l, isArr := doc.([]any); isArr {
				switch iv := v.(type) {
				case []any:
					for i, e := range l {
						if i < len(iv) {
							if !d.eval(iv[i], file, e, depth+1) {
								ok = false
							}
						} else if add, has := s["additionalItems"]; has && !d.eval(add, file, e, depth+1) {
							ok = false
						}
					}
				default:
					for _, e := range l {
						if !d.eval(iv, file, e, depth+1) {
							ok = false
						}
					}
				}
			}
		case "additionalItems": // handled with items
		case "minItems", "maxItems":
			if l, isArr := doc.([]any); isArr {
				n, _ := d7num(v)
				c := new(big.Rat).SetInt64(int64(len(l))).Cmp(n)
				if (k == "minItems" && c < 0) || (k == "maxItems" && c > 0) {
					ok = false
				}
			}
		case "uniqueItems":
			if l, isArr := doc.([]any); isArr && v == true {
				for i := range l {
					for j := i + 1; j < len(l); j++ {
						if d7equal(l[i], l[j]) {
							ok = false
						}
					}
				}
			}
		case "minLength", "maxLength":
			if str, isStr := doc.(string); isStr {
				n, _ := d7num(v)
				c := new(big.Rat).SetInt64(int64(utf8.RuneCountInString(str))).Cmp(n)
				if (k == "minLength" && c < 0) || (k == "maxLength" && c > 0) {
					ok = false
				}
			}
		case "pattern":
			if str, isStr := doc.(string); isStr && !d7regexp(v.(string)).MatchString(str) {
				ok = false
			}
		case "minimum", "maximum", "exclusiveMinimum", "exclusiveMaximum":
			if typ == "integer" || typ == "number" {
				n, isNum := d7num(v)
				if !isNum {
					panic(d7err("non-numeric " + k + " (draft-04 style booleans are not draft-07)"))
				}
				x, _ := d7num(doc)
				c := x.Cmp(n)
				switch k {
				case "minimum":
					ok = ok && c >= 0
				case "maximum":
					ok = ok && c <= 0
				case "exclusiveMinimum":
					ok = ok && c > 0
				case "exclusiveMaximum":
					ok = ok && c < 0
				}
			}
		case "multipleOf":
			if typ == "integer" || typ == "number" {
				n, _ := d7num(v)
				x, _ := d7num(doc)
				if n.Sign() != 0 && !new(big.Rat).Quo(x, n).IsInt() {
					ok = false
				}
			}
		case "minProperties", "maxProperties":
			if m, isObj := doc.(map[string]any); isObj {
				n, _ := d7num(v)
				c := new(big.Rat).SetInt64(int64(len(m))).Cmp(n)
				if (k == "minProperties" && c < 0) || (k == "maxProperties" && c > 0) {
					ok = false
				}
			}
		case "allOf":
			for _, sub := range v.([]any) {
				if !d.eval(sub, file, doc, depth+1) {
					ok = false
				}
			}
		case "anyOf":
			some := false
			for _, sub := range v.([]any) {
				if d.eval(sub, file, doc, depth+1) {
					some = true
				}
			}
			ok = ok && some
		case "oneOf":
			n := 0
			for _, sub := range v.([]any) {
				if d.eval(sub, file, doc, depth+1) {
					n++
				}
			}
			ok = ok && n == 1
		case "not":
			ok = ok && !d.eval(v, file, doc, depth+1)
		case "if":
			if d.eval(v, file, doc, depth+1) {
				if th, has := s["then"]; has && !d.eval(th, file, doc, depth+1) {
					ok = false
				}
			} else if el, has := s["else"]; has && !d.eval(el, file, doc, depth+1) {
				ok = false
			}
		case "then", "else": // handled with if
		case "dependencies":
			if m, isObj := doc.(map[string]any); isObj {
				for name, dep := range v.(map[string]any) {
					if _, has := m[name]; !has {
						continue
					}
					if list, isList := dep.([]any); isList {
						for _, r := range list {
							if _, has := m[r.(string)]; !has {
								ok = false
							}
						}
					} else if !d.eval(dep, file, doc, depth+1) {
						ok = false
					}
				}
			}
		case "propertyNames":
			if m, isObj := doc.(map[string]any); isObj {
				for name := range m {
					if !d.eval(v, file, name, depth+1) {
						ok = false
					}
				}
			}
		case "contains":
			if l, isArr := doc.([]any); isArr {
				some := false
				for _, e := range l {
					if d.eval(v, file, e, depth+1) {
						some = true
					}
				}
				ok = ok && some
			}
		}
	}
	return ok
}

var d7reCache = map[string]*regexp.Regexp{}

func d7regexp(p string) *regexp.Regexp {
	if re, ok := d7reCache[p]; ok {
		return re
	}
	re, err := regexp.Compile(p)
	if err != nil {
		panic(d7err("pattern not supported by the model: " + p))
	}
	d7reCache[p] = re
	return re
}
