// Package model holds the reference models. They are written from SPEC.md,
// doc.go and the property statements, never from the code under test, and do
// not call it.
package model

import "strings"

func isLetter(b byte) bool { return (b >= 'a' && b <= 'z') || (b >= 'A' && b <= 'Z') }
func isDigit(b byte) bool  { return b >= '0' && b <= '9' }
func isAlnum(b byte) bool  { return isLetter(b) || isDigit(b) }

// VendorOrClass: starts with a letter, ends with a letter or digit, contains
// only letters, digits, '_', '-', '.'; a single letter is valid.
func VendorOrClass(s string) bool {
	if s == "" || !isLetter(s[0]) || !isAlnum(s[len(s)-1]) {
		return false
	}
	for i := 0; i < len(s); i++ {
		b := s[i]
		if !(isAlnum(b) || b == '_' || b == '-' || b == '.') {
			return false
		}
	}
	return true
}

// DeviceName: starts and ends with a letter or digit, contains only letters,
// digits, '_', '-', '.', ':'.
func DeviceName(s string) bool {
	if s == "" || !isAlnum(s[0]) || !isAlnum(s[len(s)-1]) {
		return false
	}
	for i := 0; i < len(s); i++ {
		b := s[i]
		if !(isAlnum(b) || b == '_' || b == '-' || b == '.' || b == ':') {
			return false
		}
	}
	return true
}

// QualifiedName decides "vendor/class=name" and returns the parts. As none of
// the three parts may contain '/' or '=', a valid string has exactly one of
// each and the decomposition is unique.
func QualifiedName(s string) (vendor, class, name string, ok bool) {
	eq := strings.IndexByte(s, '=')
	if eq < 0 {
		return "", "", "", false
	}
	q, n := s[:eq], s[eq+1:]
	sl := strings.IndexByte(q, '/')
	if sl < 0 {
		return "", "", "", false
	}
	v, c := q[:sl], q[sl+1:]
	if !VendorOrClass(v) || !VendorOrClass(c) || !DeviceName(n) {
		return "", "", "", false
	}
	return v, c, n, true
}

// K8sAnnotationKey decides whether s is a legal Kubernetes annotation key
// (qualified name): optional DNS-1123 subdomain prefix (<= 253) + "/" + name
// (1..63 characters, alphanumeric at both ends, [-A-Za-z0-9_.] inside). The
// check is case-insensitive, as annotation keys are lower-cased first.
func K8sAnnotationKey(s string) bool {
	s = strings.ToLower(s)
	parts := strings.Split(s, "/")
	var name string
	switch len(parts) {
	case 1:
		name = parts[0]
	case 2:
		prefix := parts[0]
		name = parts[1]
		if prefix == "" || len(prefix) > 253 {
			return false
		}
		// DNS-1123 subdomain: labels [a-z0-9]([-a-z0-9]*[a-z0-9])? joined by '.'
		for _, l := range strings.Split(prefix, ".") {
			if l == "" || !isAlnumLower(l[0]) || !isAlnumLower(l[len(l)-1]) {
				return false
			}
			for i := 0; i < len(l); i++ {
				if !(isAlnumLower(l[i]) || l[i] == '-') {
					return false
				}
			}
		}
	default:
		return false
	}
	if name == "" || len(name) > 63 {
		return false
	}
	if !isAlnum(name[0]) || !isAlnum(name[len(name)-1]) {
		return false
	}
	for i := 0; i < len(name); i++ {
		b := name[i]
		if !(isAlnum(b) || b == '-' || b == '_' || b == '.') {
			return false
		}
	}
	return true
}

func isAlnumLower(b byte) bool { return (b >= 'a' && b <= 'z') || isDigit(b) }
