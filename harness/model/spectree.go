package model

import (
	"encoding/json"
	"strconv"

	specs "tags.cncf.io/container-device-interface/specs-go"
)

// SpecTree is the reference serialiser of an in-memory Spec: the JSON document
// tree (objects as map[string]any, numbers as json.Number) that the Spec type
// stands for, written from the member names and the required / optional
// members of the CDI specification (SPEC.md, schema/defs.json) and not derived
// from the struct tags of the code under test. Required members are always
// present, optional ones only when they are set.
func SpecTree(s *specs.Spec) any {
	if s == nil {
		return nil
	}
	m := map[string]any{"cdiVersion": s.Version, "kind": s.Kind, "containerEdits": editsTree(&s.ContainerEdits)}
	if len(s.Annotations) > 0 {
		m["annotations"] = strMap(s.Annotations)
	}
	if s.Devices == nil {
		m["devices"] = nil
	} else {
		l := []any{}
		for i := range s.Devices {
			d := &s.Devices[i]
			dm := map[string]any{"name": d.Name, "containerEdits": editsTree(&d.ContainerEdits)}
			if len(d.Annotations) > 0 {
				dm["annotations"] = strMap(d.Annotations)
			}
			l = append(l, dm)
		}
		m["devices"] = l
	}
	return m
}

func strMap(a map[string]string) any {
	m := map[string]any{}
	for k, v := range a {
		m[k] = v
	}
	return m
}

func strList(l []string) any {
	out := []any{}
	for _, s := range l {
		out = append(out, s)
	}
	return out
}

func num(i int64) json.Number   { return json.Number(strconv.FormatInt(i, 10)) }
func unum(i uint64) json.Number { return json.Number(strconv.FormatUint(i, 10)) }

func editsTree(e *specs.ContainerEdits) any {
	m := map[string]any{}
	if len(e.Env) > 0 {
		m["env"] = strList(e.Env)
	}
	if len(e.DeviceNodes) > 0 {
		l := []any{}
		for _, d := range e.DeviceNodes {
			if d == nil {
				l = append(l, nil)
				continue
			}
			dm := map[string]any{"path": d.Path}
			if d.HostPath != "" {
				dm["hostPath"] = d.HostPath
			}
			if d.Type != "" {
				dm["type"] = d.Type
			}
			if d.Major != 0 {
				dm["major"] = num(d.Major)
			}
			if d.Minor != 0 {
				dm["minor"] = num(d.Minor)
			}
			if d.FileMode != nil {
				dm["fileMode"] = unum(uint64(*d.FileMode))
			}
			if d.Permissions != "" {
				dm["permissions"] = d.Permissions
			}
			if d.UID != nil {
				dm["uid"] = unum(uint64(*d.UID))
			}
			if d.GID != nil {
				dm["gid"] = unum(uint64(*d.GID))
			}
			l = append(l, dm)
		}
		m["deviceNodes"] = l
	}
	if len(e.Hooks) > 0 {
		l := []any{}
		for _, h := range e.Hooks {
			if h == nil {
				l = append(l, nil)
				continue
			}
			hm := map[string]any{"hookName": h.HookName, "path": h.Path}
			if len(h.Args) > 0 {
				hm["args"] = strList(h.Args)
			}
			if len(h.Env) > 0 {
				hm["env"] = strList(h.Env)
			}
			if h.Timeout != nil {
				hm["timeout"] = num(int64(*h.Timeout))
			}
			l = append(l, hm)
		}
		m["hooks"] = l
	}
	if len(e.Mounts) > 0 {
		l := []any{}
		for _, mt := range e.Mounts {
			if mt == nil {
				l = append(l, nil)
				continue
			}
			mm := map[string]any{"hostPath": mt.HostPath, "containerPath": mt.ContainerPath}
			if len(mt.Options) > 0 {
				mm["options"] = strList(mt.Options)
			}
			if mt.Type != "" {
				mm["type"] = mt.Type
			}
			l = append(l, mm)
		}
		m["mounts"] = l
	}
	if r := e.IntelRdt; r != nil {
		rm := map[string]any{}
		if r.ClosID != "" {
			rm["closID"] = r.ClosID
		}
		if r.L3CacheSchema != "" {
			rm["l3CacheSchema"] = r.L3CacheSchema
		}
		if r.MemBwSchema != "" {
			rm["memBwSchema"] = r.MemBwSchema
		}
		if r.EnableCMT {
			rm["enableCMT"] = true
		}
		if r.EnableMBM {
			rm["enableMBM"] = true
		}
		m["intelRdt"] = rm
	}
	if len(e.AdditionalGIDs) > 0 {
		l := []any{}
		for _, g := range e.AdditionalGIDs {
			l = append(l, unum(uint64(g)))
		}
		m["additionalGids"] = l
	}
	return m
}
