package model

import (
	"strconv"
	"strings"

	specs "tags.cncf.io/container-device-interface/specs-go"
)

// Released lists the released Spec versions of SPEC.md's version table that
// the reference implementation supports (0.3.0 is the earliest supported).
var Released = []string{"0.3.0", "0.4.0", "0.5.0", "0.6.0", "0.7.0", "0.8.0", "1.0.0"}

// IsReleased reports whether v is (exactly) a released version string.
func IsReleased(v string) bool {
	for _, r := range Released {
		if r == v {
			return true
		}
	}
	return false
}

// CmpVersion compares two "x.y.z" strings numerically.
func CmpVersion(a, b string) int {
	pa, pb := strings.Split(a, "."), strings.Split(b, ".")
	for i := 0; i < 3; i++ {
		x, _ := strconv.Atoi(pa[i])
		y, _ := strconv.Atoi(pb[i])
		if x != y {
			if x < y {
				return -1
			}
			return 1
		}
	}
	return 0
}

func editsNeed(e *specs.ContainerEdits) string {
	need := "0.3.0"
	up := func(v string) {
		if CmpVersion(v, need) > 0 {
			need = v
		}
	}
	for _, m := range e.Mounts {
		if m != nil && m.Type != "" {
			up("0.4.0")
		}
	}
	for _, d := range e.DeviceNodes {
		if d != nil && d.HostPath != "" {
			up("0.5.0")
		}
	}
	if e.IntelRdt != nil {
		up("0.7.0")
	}
	if len(e.AdditionalGIDs) > 0 {
		up("0.7.0")
	}
	return need
}

// RequiredVersion is the highest introduction version among all features used
// anywhere in the Spec: mount type 0.4.0; device-node hostPath or a device
// name starting with a digit 0.5.0; any annotations or a dotted class 0.6.0;
// Intel RDT or additional GIDs 0.7.0; otherwise 0.3.0.
func RequiredVersion(s *specs.Spec) string {
	need := editsNeed(&s.ContainerEdits)
	up := func(v string) {
		if CmpVersion(v, need) > 0 {
			need = v
		}
	}
	if len(s.Annotations) > 0 {
		up("0.6.0")
	}
	if i := strings.IndexByte(s.Kind, '/'); i >= 0 && strings.Contains(s.Kind[i+1:], ".") {
		up("0.6.0")
	}
	for i := range s.Devices {
		d := &s.Devices[i]
		up(editsNeed(&d.ContainerEdits))
		if len(d.Annotations) > 0 {
			up("0.6.0")
		}
		if d.Name != "" && d.Name[0] >= '0' && d.Name[0] <= '9' {
			up("0.5.0")
		}
	}
	return need
}

// VersionValid: the declared version is a released version not lower than
// the minimum the Spec's features require.
func VersionValid(s *specs.Spec) bool {
	return IsReleased(s.Version) && CmpVersion(s.Version, RequiredVersion(s)) >= 0
}
