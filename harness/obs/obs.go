// Package obs holds observations shared by the test binary and the helper
// binary.
package obs

import (
	"encoding/json"
	"fmt"
	"os"
	"path/filepath"
	"sort"
	"strings"
	"syscall"

	"tags.cncf.io/container-device-interface/pkg/cdi"
)

// FullView is what queries tell about a cache: devices with their
// definitions and every key of the error report (directories included).
func FullView(c *cdi.Cache) string {
	var sb strings.Builder
	for _, d := range c.ListDevices() {
		dev := c.GetDevice(d)
		if dev == nil {
			sb.WriteString(d + " <listed but nil>\n")
			continue
		}
		b, _ := json.Marshal(dev.Device)
		fmt.Fprintf(&sb, "%s %s %d %s\n", d, dev.GetSpec().GetPath(), dev.GetSpec().GetPriority(), b)
	}
	var keys []string
	for k := range c.GetErrors() {
		keys = append(keys, k)
	}
	sort.Strings(keys)
	sb.WriteString("errors: " + strings.Join(keys, ","))
	sb.WriteString("\ndirs: " + strings.Join(c.GetSpecDirectories(), ","))
	var dk []string
	for k := range c.GetSpecDirErrors() {
		dk = append(dk, k)
	}
	sort.Strings(dk)
	sb.WriteString("\ndirErrors: " + strings.Join(dk, ","))
	return sb.String()
}

// Inotify counts the inotify descriptors of this process and their watches.
func Inotify() (fds, watches int) {
	ents, err := os.ReadDir("/proc/self/fd")
	if err != nil {
		return -1, -1
	}
	for _, e := range ents {
		l, err := os.Readlink(filepath.Join("/proc/self/fd", e.Name()))
		if err != nil || l != "anon_inode:inotify" {
			continue
		}
		fds++
		b, _ := os.ReadFile(filepath.Join("/proc/self/fdinfo", e.Name()))
		for _, line := range strings.Split(string(b), "\n") {
			if strings.HasPrefix(line, "inotify wd:") {
				watches++
			}
		}
	}
	return fds, watches
}

// OpenFDs counts the open descriptors of this process.
func OpenFDs() int {
	ents, err := os.ReadDir("/proc/self/fd")
	if err != nil {
		return -1
	}
	return len(ents) - 1 // the descriptor used for reading the directory
}

// WatchDiag describes, for a failure report, which inodes this process's
// inotify descriptors watch and which inodes the given paths have now.
func WatchDiag(paths []string) string {
	var sb strings.Builder
	ents, _ := os.ReadDir("/proc/self/fd")
	for _, e := range ents {
		l, err := os.Readlink(filepath.Join("/proc/self/fd", e.Name()))
		if err != nil || l != "anon_inode:inotify" {
			continue
		}
		b, _ := os.ReadFile(filepath.Join("/proc/self/fdinfo", e.Name()))
		for _, line := range strings.Split(string(b), "\n") {
			if strings.HasPrefix(line, "inotify wd:") {
				fmt.Fprintf(&sb, "  fd %s: %s\n", e.Name(), line)
			}
		}
	}
	for _, p := range paths {
		var st syscall.Stat_t
		if err := syscall.Lstat(p, &st); err != nil {
			fmt.Fprintf(&sb, "  %s: %v\n", p, err)
		} else {
			fmt.Fprintf(&sb, "  %s: ino %x\n", p, st.Ino)
		}
	}
	return sb.String()
}
