package props

import (
	"fmt"
	"os"
	"path/filepath"
	"strings"
	"testing"
	"time"

	"pgregory.net/rapid"
	"tags.cncf.io/container-device-interface/pkg/cdi"
	"tags.cncf.io/container-device-interface/verifharness/layout"
	"tags.cncf.io/container-device-interface/verifharness/stats"
)

// scratch hands out fresh directories below one per-test base.
type scratch struct {
	base string
	seq  int
}

func newScratch(t testing.TB) *scratch { return &scratch{base: t.TempDir()} }

func (s *scratch) dir() string {
	s.seq++
	d := filepath.Join(s.base, fmt.Sprintf("case%d", s.seq))
	_ = os.RemoveAll(d)
	if err := os.MkdirAll(d, 0o755); err != nil {
		panic(err)
	}
	return d
}

func layoutLabels(l *layout.Layout, r *layout.Resolution) (labels []string, nontrivial bool) {
	set := map[string]bool{}
	seen := map[int]bool{}
	for _, s := range l.Slots {
		if seen[s] {
			set["repeated-directory"] = true
		}
		seen[s] = true
		if !l.Pool[s].Exists {
			set["missing-directory"] = true
		}
	}
	set[fmt.Sprintf("slots-%d", len(l.Slots))] = true
	// per qualified name: where is it defined
	type where struct{ prio, n int }
	defs := map[string]map[int]int{}
	json, yaml := false, false
	for prio, di := range l.Slots {
		d := l.Pool[di]
		if !d.Exists {
			continue
		}
		for name, f := range d.Files {
			if !layout.IsSpecName(name) {
				set["ignored-name-present"] = true
				continue
			}
			if f.Kind != layout.Valid {
				set["invalid-file-present"] = true
				continue
			}
			if f.Link != "" {
				set["valid-spec-behind-symlink"] = true
			}
			if strings.HasSuffix(name, ".json") {
				json = true
			} else {
				yaml = true
			}
			for _, dv := range f.Spec.Devices {
				q := f.Spec.Kind + "=" + dv.Name
				if defs[q] == nil {
					defs[q] = map[int]int{}
				}
				defs[q][prio]++
			}
		}
		if len(d.Subdirs) > 0 {
			set["subdirectory-present"] = true
		}
	}
	if json && yaml {
		set["json-and-yaml"] = true
	}
	for _, byPrio := range defs {
		total, top := 0, -1
		for p, n := range byPrio {
			total += n
			if p > top {
				top = p
			}
		}
		if total >= 2 && len(l.Slots) >= 2 {
			nontrivial = true
		}
		if len(byPrio) >= 2 {
			set["shadowing"] = true
			if set["invalid-file-present"] {
				set["invalid-file-with-shadowing"] = true
			}
		}
		if byPrio[top] >= 2 {
			set["conflict-at-top"] = true
		}
		if byPrio[top] >= 3 {
			set["three-way-conflict"] = true
		}
		for p, n := range byPrio {
			if p < top && n >= 2 {
				set["conflict-below-higher-definition"] = true
				if byPrio[top] == 1 {
					set["conflict-below-unique-top"] = true
				}
			}
		}
	}
	if len(r.Devices) > 0 {
		set["some-device-resolves"] = true
	}
	for k := range set {
		labels = append(labels, k)
	}
	return labels, nontrivial
}

// waitAgree polls the query API of an auto-refresh cache until it equals the
// model or the bound expires.
func waitAgree(c *cdi.Cache, l *layout.Layout, bound time.Duration) string {
	deadline := time.Now().Add(bound)
	var msg string
	for {
		msg = layout.CompareCache(c, l, layout.Resolve(l))
		if msg == "" || time.Now().After(deadline) {
			return msg
		}
		time.Sleep(2 * time.Millisecond)
	}
}

func regularKind(k string) bool {
	return k == layout.Valid || k == layout.BadSyntax || k == layout.BadSemantic || k == layout.Empty
}

func propC01(rec *stats.Rec, sc *scratch, auto bool) func(t *rapid.T) {
	return func(t *rapid.T) {
		root := sc.dir()
		defer os.RemoveAll(root)
		l := layout.Generate(t, root, layout.Options{Links: true})
		if err := l.Materialise(); err != nil {
			t.Fatalf("VERIF-HARNESS materialise: %v", err)
		}
		if auto {
			waitForInotify()
		}
		cache, _ := cdi.NewCache(cdi.WithSpecDirs(l.Paths()...), cdi.WithAutoRefresh(auto))
		if auto {
			defer cache.Configure(cdi.WithAutoRefresh(false))
			undecidedIfNoInotify(t, cache)
		}
		step := 0
		mutated := "initial"
		var extraLabels []string
		check := func(t *rapid.T) {
			var msg string
			if auto {
				msg = waitAgree(cache, l, 10*time.Second)
			} else {
				_ = cache.Refresh()
				msg = layout.CompareCache(cache, l, layout.Resolve(l))
			}
			r := layout.Resolve(l)
			if msg != "" {
				t.Fatalf("C01 violated after step %d (%s, auto=%v): %s\nlayout: %s", step, mutated, auto, msg, canonJSON(l.Describe()))
			}
			labels, nontriv := layoutLabels(l, r)
			labels = append(labels, "after:"+strings.SplitN(mutated, " ", 2)[0])
			labels = append(labels, extraLabels...)
			extraLabels = nil
			rec.Case(nontriv, canonJSON(l.Describe()), func() any { return map[string]any{"auto": auto, "step": step, "last": mutated, "layout": l.Describe()} }, labels...)
			step++
		}
		check(t)
		existing := func() []int {
			var out []int
			for i, d := range l.Pool {
				if d.Exists {
					out = append(out, i)
				}
			}
			return out
		}
		specNames := []string{"a.json", "b.yaml", "c.json", "d.yaml", "s1.json", "s2.yaml", "s3.json"}
		actions := map[string]func(*rapid.T){
			"putValid": func(t *rapid.T) {
				ex := existing()
				if len(ex) == 0 {
					t.Skip("no directory")
				}
				d := rapid.SampledFrom(ex).Draw(t, "dir")
				name := rapid.SampledFrom(specNames).Draw(t, "name")
				f := l.NewValidFile(t, "new", l.Pool[d].Name, name, nil, "", nil)
				if err := l.PutFile(d, f); err != nil {
					t.Skip(err.Error())
				}
				mutated = fmt.Sprintf("putValid %s/%s", l.Pool[d].Name, name)
			},
			"putInvalid": func(t *rapid.T) {
				ex := existing()
				if len(ex) == 0 {
					t.Skip("no directory")
				}
				d := rapid.SampledFrom(ex).Draw(t, "dir")
				name := rapid.SampledFrom(specNames).Draw(t, "name")
				if err := l.PutFile(d, l.NewInvalidFile(t, "new", l.Pool[d].Name, name)); err != nil {
					t.Skip(err.Error())
				}
				mutated = fmt.Sprintf("putInvalid %s/%s", l.Pool[d].Name, name)
			},
			"removeFile": func(t *rapid.T) {
				type cand struct {
					d int
					n string
				}
				var cands []cand
				for _, d := range existing() {
					for _, n := range l.Pool[d].SortedFileNames() {
						cands = append(cands, cand{d, n})
					}
				}
				if len(cands) == 0 {
					t.Skip("no file")
				}
				c := rapid.SampledFrom(cands).Draw(t, "file")
				if err := l.RemoveFile(c.d, c.n); err != nil {
					t.Fatalf("VERIF-HARNESS remove: %v", err)
				}
				mutated = fmt.Sprintf("removeFile %s/%s", l.Pool[c.d].Name, c.n)
			},
		}
		// an existing regular Spec file rewritten in place (truncate and write, what an editor or a shell redirection
		// does: write events only), half of the time the file rewritten last
		lastRewritten := [2]any{-1, ""}
		actions["rewriteInPlace"] = func(t *rapid.T) {
			type cand struct {
				d int
				n string
			}
			var cands []cand
			for _, d := range existing() {
				for _, n := range l.Pool[d].SortedFileNames() {
					if f := l.Pool[d].Files[n]; layout.IsSpecName(n) && f.Link == "" && regularKind(f.Kind) {
						cands = append(cands, cand{d, n})
					}
				}
			}
			if len(cands) == 0 {
				t.Skip("no regular Spec file")
			}
			c := rapid.SampledFrom(cands).Draw(t, "file")
			if rapid.Bool().Draw(t, "sameAsLast") {
				for _, k := range cands {
					if k.d == lastRewritten[0] && k.n == lastRewritten[1] {
						c = k
					}
				}
			}
			if rapid.IntRange(0, 3).Draw(t, "sameSizeSameTimes") == 0 {
				// same size, same modification time, same inode - other content
				if err := l.RewriteSameSizeSameTimes(c.d, c.n); err != nil {
					t.Skip(err.Error())
				}
				extraLabels = append(extraLabels, "rewritten-in-place-with-size-and-mtime-unchanged")
				lastRewritten = [2]any{c.d, c.n}
				mutated = fmt.Sprintf("rewriteInPlace (same size, mtime restored) %s/%s", l.Pool[c.d].Name, c.n)
				return
			}
			var f *layout.File
			if rapid.IntRange(0, 3).Draw(t, "invalid") == 0 {
				f = l.NewInvalidFile(t, "rw", l.Pool[c.d].Name, c.n)
			} else {
				f = l.NewValidFile(t, "rw", l.Pool[c.d].Name, c.n, nil, "", nil)
			}
			if f.Link != "" || !regularKind(f.Kind) {
				t.Skip("not a regular file")
			}
			if err := l.PutFileInPlace(c.d, f); err != nil {
				t.Skip(err.Error())
			}
			if lastRewritten[0] == c.d && lastRewritten[1] == c.n {
				extraLabels = append(extraLabels, "same-file-rewritten-in-place-twice-in-a-row")
			}
			lastRewritten = [2]any{c.d, c.n}
			mutated = fmt.Sprintf("rewriteInPlace %s/%s", l.Pool[c.d].Name, c.n)
		}
		// a Spec file renamed to a name the scan ignores (x.json -> x.json.disabled), or moved out of the directory:
		// the only event is a rename event carrying the old name
		actions["renameAway"] = func(t *rapid.T) {
			type cand struct {
				d int
				n string
			}
			var cands []cand
			for _, d := range existing() {
				for _, n := range l.Pool[d].SortedFileNames() {
					if layout.IsSpecName(n) {
						cands = append(cands, cand{d, n})
					}
				}
			}
			if len(cands) == 0 {
				t.Skip("no Spec-named file")
			}
			c := rapid.SampledFrom(cands).Draw(t, "file")
			to := rapid.SampledFrom([]string{"", c.n + ".disabled", c.n + ".bak", "." + c.n + "~"}).Draw(t, "to")
			if err := l.RenameFile(c.d, c.n, to); err != nil {
				t.Skip(err.Error())
			}
			mutated = fmt.Sprintf("renameAway %s/%s -> %q", l.Pool[c.d].Name, c.n, to)
		}
		if !auto {
			actions["putIgnoredName"] = func(t *rapid.T) {
				ex := existing()
				if len(ex) == 0 {
					t.Skip("no directory")
				}
				d := rapid.SampledFrom(ex).Draw(t, "dir")
				name := rapid.SampledFrom([]string{"x.txt", "x.yml", "x.json.bak", "x"}).Draw(t, "name")
				if err := l.PutFile(d, l.NewValidFile(t, "new", l.Pool[d].Name, name, nil, "", nil)); err != nil {
					t.Skip(err.Error())
				}
				mutated = fmt.Sprintf("putIgnoredName %s/%s", l.Pool[d].Name, name)
			}
			actions["removeDir"] = func(t *rapid.T) {
				ex := existing()
				if len(ex) == 0 {
					t.Skip("no directory")
				}
				d := rapid.SampledFrom(ex).Draw(t, "dir")
				if err := l.RemoveDir(d); err != nil {
					t.Fatalf("VERIF-HARNESS rmdir: %v", err)
				}
				mutated = fmt.Sprintf("removeDir %s", l.Pool[d].Name)
			}
			actions["makeDir"] = func(t *rapid.T) {
				var missing []int
				for i, d := range l.Pool {
					if !d.Exists {
						missing = append(missing, i)
					}
				}
				if len(missing) == 0 {
					t.Skip("no missing directory")
				}
				d := rapid.SampledFrom(missing).Draw(t, "dir")
				if err := l.MakeDir(d); err != nil {
					t.Fatalf("VERIF-HARNESS mkdir: %v", err)
				}
				mutated = fmt.Sprintf("makeDir %s", l.Pool[d].Name)
			}
		}
		// always enabled (rapid gives up on a step in which every drawn action skips, e.g. with every directory missing)
		actions["recheck"] = func(t *rapid.T) { mutated = "recheck" }
		actions[""] = check
		t.Repeat(actions)
	}
}

func TestC01Manual(t *testing.T) {
	rapid.Check(t, propC01(stats.For("C01", "manual"), newScratch(t), false))
}

func TestC01Auto(t *testing.T) {
	rapid.Check(t, propC01(stats.For("C01", "auto"), newScratch(t), true))
}

func TestC01Regress(t *testing.T) {
	rec := stats.For("C01", "regress")
	sc := newScratch(t)
	for _, rc := range loadRegressions(t, "C01") {
		var d layout.Desc
		if err := jsonUnmarshal(rc.Case, &d); err != nil {
			t.Fatalf("bad C01 regression: %v", err)
		}
		root := sc.dir()
		l := layout.FromDesc(root, d)
		if err := l.Materialise(); err != nil {
			t.Fatal(err)
		}
		for _, auto := range []bool{false, true} {
			cache, _ := cdi.NewCache(cdi.WithSpecDirs(l.Paths()...), cdi.WithAutoRefresh(auto))
			_ = cache.Refresh()
			msg := layout.CompareCache(cache, l, layout.Resolve(l))
			_ = cache.Configure(cdi.WithAutoRefresh(false))
			if msg != "" {
				p := saveReplay("C01", "layout", d)
				t.Fatalf("C01 violated on regression [%s] (auto=%v): %s\nreplay: %s", rc.Note, auto, msg, p)
			}
		}
		rec.Case(true, canonJSON(d), func() any { return d }, "regression")
		os.RemoveAll(root)
	}
}
