package props

import (
	"fmt"
	"os"
	"strings"
	"testing"

	oci "github.com/opencontainers/runtime-spec/specs-go"
	"pgregory.net/rapid"
	"tags.cncf.io/container-device-interface/pkg/cdi"
	specs "tags.cncf.io/container-device-interface/specs-go"
	"tags.cncf.io/container-device-interface/verifharness/gen"
	"tags.cncf.io/container-device-interface/verifharness/layout"
	"tags.cncf.io/container-device-interface/verifharness/stats"
)

// markerToken makes a marker usable inside env names and paths.
func markerToken(marker, dev string) string {
	r := strings.NewReplacer("/", "_", "@", "_", ".", "_", "#", "_")
	return "MK_" + r.Replace(marker) + "_" + dev + "_"
}

// c02Edits: rich edits in which every env name, device path, mount
// destination and hook path is unique to (file, device).
func c02Edits(t *rapid.T, marker, dev string) specs.ContainerEdits {
	tok := markerToken(marker, dev)
	e := gen.Edits(t, tok, gen.EditOpts{NoHost: true, Marker: tok, MaxPer: 2, NonEmpty: dev != ""})
	// entries that several devices and Spec files have in common (same container path, same variable, same node
	// path; the token sits in the value): later ones replace earlier ones, and position matters
	for i, n := 0, rapid.SampledFrom([]int{0, 0, 1, 2, 3}).Draw(t, tok+"common"); i < n; i++ {
		l := fmt.Sprintf("%scommon%d", tok, i)
		switch rapid.IntRange(0, 3).Draw(t, l+"kind") {
		case 0, 1:
			e.Mounts = append(e.Mounts, &specs.Mount{HostPath: "/host/" + tok, ContainerPath: rapid.SampledFrom([]string{"/mnt/shared", "/mnt/other", "/mnt/third", "/mnt/shared/deep"}).Draw(t, l+"dest"),
				Options: []string{"ro"}})
		case 2:
			val := tok
			switch rapid.IntRange(0, 7).Draw(t, l+"multiline") {
			case 0, 1:
				val = tok + "\n\nafter a blank line\n" // a value with an empty line in it
			case 2:
				val = tok + " 100% +%s %d%% %!v(x) %" // a value that is not a format string
			}
			e.Env = append(e.Env, rapid.SampledFrom([]string{"MODE", "SHARED", "MOD", "MODE_X", "SHARED2", "S"}).Draw(t, l+"var")+"="+val)
		default:
			e.DeviceNodes = append(e.DeviceNodes, &specs.DeviceNode{Path: rapid.SampledFrom([]string{"/dev/shared0", "/dev/shared1"}).Draw(t, l+"node"), HostPath: "/hostdev/" + tok, Type: "c", Major: 240, Minor: int64(i)})
		}
	}
	return e
}

// appendEdits is the harness-side composition of an ordered edit list: every
// list-valued member by concatenation, the Intel RDT setting by "the last one
// present" (an RDT edit replaces the previous setting).
func appendEdits(dst *specs.ContainerEdits, src *specs.ContainerEdits) {
	dst.Env = append(dst.Env, src.Env...)
	dst.DeviceNodes = append(dst.DeviceNodes, src.DeviceNodes...)
	dst.Hooks = append(dst.Hooks, src.Hooks...)
	dst.Mounts = append(dst.Mounts, src.Mounts...)
	dst.AdditionalGIDs = append(dst.AdditionalGIDs, src.AdditionalGIDs...)
	if src.IntelRdt != nil {
		dst.IntelRdt = src.IntelRdt
	}
}

type c02Case struct {
	Layout  any       `json:"layout"`
	Request []string  `json:"request"`
	OCI     *oci.Spec `json:"oci,omitempty"`
}

func TestC02Rapid(t *testing.T) {
	rec := stats.For("C02", "rapid")
	sc := newScratch(t)
	rapid.Check(t, func(t *rapid.T) {
		root := sc.dir()
		defer os.RemoveAll(root)
		l := layout.Generate(t, root, layout.Options{MaxFiles: 3, Edits: c02Edits, NoInvalid: rapid.Bool().Draw(t, "noInvalid")})
		if err := l.Materialise(); err != nil {
			t.Fatalf("VERIF-HARNESS materialise: %v", err)
		}
		r := layout.Resolve(l)
		resolvable := r.SortedDevices()
		if len(resolvable) == 0 {
			rec.Label("no-resolvable-device")
			return
		}
		perm := rapid.Permutation(resolvable).Draw(t, "order")
		n := rapid.IntRange(1, min(6, len(perm))).Draw(t, "nReq")
		req := perm[:n]
		o := gen.OCISpec(t, "oci", gen.OCIOpts{})
		before := gen.CloneOCI(o)

		// the combined edit list, built from the generated documents in request order
		var combined specs.ContainerEdits
		seenFile := map[*layout.File]bool{}
		involvedTokens := map[string]bool{}
		var fileSeq []*layout.File
		for _, q := range req {
			w := r.Devices[q]
			if !seenFile[w.File] {
				seenFile[w.File] = true
				appendEdits(&combined, &w.File.Spec.ContainerEdits)
				involvedTokens[markerToken(w.File.Marker, "")] = true
			}
			appendEdits(&combined, &w.Device.ContainerEdits)
			involvedTokens[markerToken(w.File.Marker, w.Device.Name)] = true
			fileSeq = append(fileSeq, w.File)
		}
		expect := gen.CloneOCI(before)
		combinedCopy := jsonCloneEdits(canonJSON(&combined))
		if err := (&cdi.ContainerEdits{ContainerEdits: combinedCopy}).Apply(expect); err != nil {
			t.Fatalf("VERIF-HARNESS: the combined edit list does not apply: %v", err)
		}

		// the cache: manual refresh, or (one case in four) an auto-refresh cache whose watcher could not be created
		// (descriptor shortage at creation): such a cache rescans the directories on every lookup, which must not show
		cacheKind := "manual"
		var cache *cdi.Cache
		if rapid.IntRange(0, 3).Draw(t, "watcherlessCache") == 0 {
			if restore, err := exhaustDescriptors(); err == nil {
				cache, _ = cdi.NewCache(cdi.WithSpecDirs(l.Paths()...), cdi.WithAutoRefresh(true))
				restore()
				defer cache.Configure(cdi.WithAutoRefresh(false))
				cacheKind = "auto-refresh without a watcher"
				rec.Label("cache-without-watcher")
			}
		}
		if cache == nil {
			cache, _ = cdi.NewCache(cdi.WithSpecDirs(l.Paths()...), cdi.WithAutoRefresh(false))
		}
		// one case in three: the cache has answered a request before, one that was refused because of a name that does
		// not resolve (placed at a drawn position among the very names requested next); the composition of the
		// request proper must not depend on that history
		if rapid.IntRange(0, 2).Draw(t, "refusedRequestBefore") == 0 {
			pos := rapid.IntRange(0, len(req)).Draw(t, "unresolvableAt")
			bad := append(append(append([]string{}, req[:pos]...), "no-such.vendor/class=nothing"), req[pos:]...)
			_, _ = cache.InjectDevices(gen.CloneOCI(before), bad...) // what a refused request returns is C04's business
			rec.Label("refused-request-before")
		}
		unresolved, ierr := cache.InjectDevices(o, req...)
		fail := func(msg string) {
			t.Fatalf("C02 violated: %s\nrequest: %q\ncache: %s\nlayout: %s\nOCI before: %s", msg, req, cacheKind, canonJSON(l.Describe()), canonJSON(before))
		}
		if ierr != nil || unresolved != nil {
			fail(fmt.Sprintf("injection of resolvable devices failed: %v %v", unresolved, ierr))
		}
		got, want := gen.OCIImage(o), gen.OCIImage(expect)
		if got != want {
			fail(fmt.Sprintf("result differs from applying the combined edit list: %s", firstDiff(want, got)))
		}
		// the cache is used again: the same request into an equal OCI spec, and a one-device request,
		// must not be influenced by the earlier injection
		again := gen.CloneOCI(before)
		if _, err := cache.InjectDevices(again, req...); err != nil || gen.OCIImage(again) != want {
			fail(fmt.Sprintf("repeating the request on the same cache gives another result: %v %s", err, firstDiff(want, gen.OCIImage(again))))
		}
		last := req[len(req)-1]
		wl := r.Devices[last]
		var single specs.ContainerEdits
		appendEdits(&single, &wl.File.Spec.ContainerEdits)
		appendEdits(&single, &wl.Device.ContainerEdits)
		expSingle, gotSingle := gen.CloneOCI(before), gen.CloneOCI(before)
		if err := (&cdi.ContainerEdits{ContainerEdits: jsonCloneEdits(canonJSON(&single))}).Apply(expSingle); err != nil {
			t.Fatalf("VERIF-HARNESS: %v", err)
		}
		if _, err := cache.InjectDevices(gotSingle, last); err != nil || gen.OCIImage(gotSingle) != gen.OCIImage(expSingle) {
			fail(fmt.Sprintf("after the first injection, injecting %s alone on the same cache differs from applying its own edit list: %v %s", last, err, firstDiff(gen.OCIImage(expSingle), gen.OCIImage(gotSingle))))
		}
		// no marker of a device that was not requested, of a shadowed file or of an uninvolved file
		for _, d := range l.Pool {
			all := []map[string]*layout.File{d.Files}
			for _, sub := range d.Subdirs {
				all = append(all, sub)
			}
			for _, files := range all {
				for _, f := range files {
					if f.Spec == nil {
						continue
					}
					toks := []string{markerToken(f.Marker, "")}
					for _, dv := range f.Spec.Devices {
						toks = append(toks, markerToken(f.Marker, dv.Name))
					}
					for _, tok := range toks {
						if !involvedTokens[tok] && strings.Contains(got, tok) {
							fail(fmt.Sprintf("the result contains edits marked %s, which belong to a device or Spec file that was not selected", tok))
						}
					}
				}
			}
		}
		// classification
		interleaved := false
		for i := 0; i+2 < len(fileSeq); i++ {
			for j := i + 2; j < len(fileSeq); j++ {
				if fileSeq[i] == fileSeq[j] && fileSeq[i+1] != fileSeq[i] {
					interleaved = true
				}
			}
		}
		shadowedReq := false
		for _, q := range req {
			w := r.Devices[q]
			for prio, di := range l.Slots {
				if prio >= w.Priority || !l.Pool[di].Exists {
					continue
				}
				for _, f := range l.Pool[di].Files {
					if f.Kind == layout.Valid {
						for _, dv := range f.Spec.Devices {
							if f.Spec.Kind+"="+dv.Name == q {
								shadowedReq = true
							}
						}
					}
				}
			}
		}
		labels := []string{fmt.Sprintf("request-%d", len(req)), fmt.Sprintf("files-%d", len(seenFile))}
		if interleaved {
			labels = append(labels, "devices-of-one-file-interleaved-with-another")
		}
		if shadowedReq {
			labels = append(labels, "requested-device-also-defined-in-shadowed-file")
		}
		if combined.IntelRdt != nil {
			labels = append(labels, "rdt-in-combined-edits")
		}
		c := c02Case{Layout: l.Describe(), Request: req}
		rec.Case(interleaved || shadowedReq, canonJSON(c)+canonJSON(before), func() any { c.OCI = before; return c }, labels...)
	})
}
