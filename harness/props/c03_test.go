package props

import (
	"encoding/json"
	"fmt"
	"os"
	"path/filepath"
	"reflect"
	"sort"
	"strings"
	"syscall"
	"testing"

	oci "github.com/opencontainers/runtime-spec/specs-go"
	"golang.org/x/sys/unix"
	"pgregory.net/rapid"
	"tags.cncf.io/container-device-interface/pkg/cdi"
	specs "tags.cncf.io/container-device-interface/specs-go"
	"tags.cncf.io/container-device-interface/verifharness/gen"
	"tags.cncf.io/container-device-interface/verifharness/stats"
)

// ---------------------------------------------------------------- host nodes

type hostNode struct {
	Typ          string // "c","b","p","file","dir","symlink","missing"
	Major, Minor int64
}

// hostEnv is a directory of host nodes of every kind.
type hostEnv struct {
	dir      string
	nodes    map[string]hostNode
	names    []string
	mknodOK  bool
	fallback bool
}

func mkNode(p, typ string, maj, min uint32) error {
	switch typ {
	case "c":
		return unix.Mknod(p, unix.S_IFCHR|0o600, int(unix.Mkdev(maj, min)))
	case "b":
		return unix.Mknod(p, unix.S_IFBLK|0o600, int(unix.Mkdev(maj, min)))
	case "p":
		return syscall.Mkfifo(p, 0o600)
	case "file":
		return os.WriteFile(p, nil, 0o600)
	case "dir":
		return os.Mkdir(p, 0o700)
	case "symlink":
		return os.Symlink("/dev/null", p)
	}
	return nil
}

func newHostEnv(t testing.TB) *hostEnv {
	h := &hostEnv{dir: t.TempDir(), nodes: map[string]hostNode{}}
	add := func(name, typ string, maj, min uint32) {
		p := filepath.Join(h.dir, name)
		if err := mkNode(p, typ, maj, min); err != nil {
			if typ == "c" || typ == "b" {
				h.fallback = true
				return
			}
			t.Fatalf("VERIF-UNDECIDED cannot create host node %s: %v", p, err)
		}
		h.nodes[p] = hostNode{typ, int64(maj), int64(min)}
		h.names = append(h.names, p)
	}
	add("c1", "c", 7, 9)
	add("c2", "c", 0, 5) // major 0 on the host
	add("c3", "c", 511, 1048575)
	add("b1", "b", 8, 1)
	add("b2", "b", 259, 0)
	add("p1", "p", 0, 0)
	add("f1", "file", 0, 0)
	add("d1", "dir", 0, 0)
	add("s1", "symlink", 0, 0)
	gone := filepath.Join(h.dir, "gone")
	h.nodes[gone] = hostNode{"missing", 0, 0}
	h.names = append(h.names, gone)
	h.mknodOK = !h.fallback
	if h.fallback {
		// no mknod privilege: use the char devices every Linux has
		for _, p := range []string{"/dev/null", "/dev/zero", "/dev/full"} {
			var st unix.Stat_t
			if unix.Lstat(p, &st) == nil && st.Mode&unix.S_IFMT == unix.S_IFCHR {
				h.nodes[p] = hostNode{"c", int64(unix.Major(uint64(st.Rdev))), int64(unix.Minor(uint64(st.Rdev)))}
				h.names = append(h.names, p)
			}
		}
	}
	return h
}

// ---------------------------------------------------------------- edit generator

var c03DevPaths = []string{"/dev/a", "/dev/b", "/dev/n1", "/dev/n2"}
var c03EditMountDests = []string{"/m", "/m/a", "/q", "/m/a/b/c", "/z/./y", "/", "/q/r", "rel2"}

func c03u32p(t *rapid.T, l string) *uint32 {
	switch rapid.IntRange(0, 3).Draw(t, l) {
	case 0:
		return nil
	case 1:
		v := uint32(0)
		return &v
	default:
		v := rapid.SampledFrom([]uint32{1, 5, 1000, 4294967295}).Draw(t, l+"v")
		return &v
	}
}

func genC03Edits(t *rapid.T, h *hostEnv) *specs.ContainerEdits {
	e := &specs.ContainerEdits{}
	for i, n := 0, rapid.IntRange(0, 5).Draw(t, "eenv"); i < n; i++ {
		e.Env = append(e.Env, rapid.SampledFrom([]string{"A", "B", "E", "PATH"}).Draw(t, fmt.Sprintf("eek%d", i))+"="+
			rapid.SampledFrom([]string{"e", "", "x=y", fmt.Sprintf("e%d", i)}).Draw(t, fmt.Sprintf("eev%d", i)))
	}
	for i, n := 0, rapid.IntRange(0, 5).Draw(t, "edn"); i < n; i++ {
		l := fmt.Sprintf("dn%d", i)
		dn := &specs.DeviceNode{}
		dn.Path = rapid.SampledFrom(c03DevPaths).Draw(t, l+"p")
		hp := rapid.SampledFrom(h.names).Draw(t, l+"h")
		switch rapid.IntRange(0, 3).Draw(t, l+"hostMode") {
		case 0, 1:
			dn.HostPath = hp
		case 2:
			dn.Path = hp // the container path itself names the host node
		}
		dn.Type = rapid.SampledFrom([]string{"", "", "c", "b", "p", "u"}).Draw(t, l+"t")
		dn.Major = rapid.SampledFrom([]int64{0, 0, 3, 250}).Draw(t, l+"maj")
		dn.Minor = rapid.SampledFrom([]int64{0, 0, 4}).Draw(t, l+"min")
		dn.Permissions = rapid.SampledFrom([]string{"", "r", "rw", "rwm", "mw"}).Draw(t, l+"perm")
		dn.UID = c03u32p(t, l+"uid")
		dn.GID = c03u32p(t, l+"gid")
		if rapid.Bool().Draw(t, l+"fm") {
			fm := os.FileMode(rapid.SampledFrom([]uint32{0o640, 0, 0o666, 4294967295}).Draw(t, l+"fmv"))
			dn.FileMode = &fm
		}
		e.DeviceNodes = append(e.DeviceNodes, dn)
	}
	nm := rapid.IntRange(0, 5).Draw(t, "emnt")
	long := rapid.IntRange(0, 7).Draw(t, "longMounts") == 0
	if long {
		nm = rapid.IntRange(14, 40).Draw(t, "emntLong")
	}
	for i := 0; i < nm; i++ {
		l := fmt.Sprintf("m%d", i)
		var dest string
		if long {
			// many destinations of equal depth: an unstable sort would show
			dest = fmt.Sprintf("/l/%s", rapid.SampledFrom([]string{"a", "b", "c", "d", "e", "f", "g", "h", "i", "j", "k", "l", "m", "n", "o", "p", "q", "r", "s", "t"}).Draw(t, l+"d"))
			if rapid.IntRange(0, 5).Draw(t, l+"deep") == 0 {
				dest += "/x"
			}
		} else {
			dest = rapid.SampledFrom(c03EditMountDests).Draw(t, l+"d")
		}
		m := &specs.Mount{HostPath: fmt.Sprintf("/edit%d", i), ContainerPath: dest}
		if rapid.Bool().Draw(t, l+"ty") {
			m.Type = rapid.SampledFrom([]string{"bind", "tmpfs"}).Draw(t, l+"tyv")
		}
		if rapid.Bool().Draw(t, l+"op") {
			m.Options = []string{"ro", fmt.Sprintf("o%d", i)}
		}
		e.Mounts = append(e.Mounts, m)
	}
	for i, n := 0, rapid.IntRange(0, 5).Draw(t, "ehk"); i < n; i++ {
		l := fmt.Sprintf("h%d", i)
		hk := &specs.Hook{HookName: rapid.SampledFrom(hookStagesAll).Draw(t, l+"n"), Path: fmt.Sprintf("/hook%d", i)}
		if rapid.Bool().Draw(t, l+"a") {
			hk.Args = []string{"hook", fmt.Sprintf("%d", i)}
		}
		if rapid.Bool().Draw(t, l+"e") {
			hk.Env = []string{"H=1"}
		}
		if rapid.Bool().Draw(t, l+"t") {
			v := rapid.SampledFrom([]int{0, 5, 4294967295}).Draw(t, l+"tv")
			hk.Timeout = &v
		}
		e.Hooks = append(e.Hooks, hk)
	}
	if rapid.IntRange(0, 2).Draw(t, "erdt") == 0 {
		e.IntelRdt = &specs.IntelRdt{ClosID: rapid.SampledFrom([]string{"", "new"}).Draw(t, "eclos"), MemBwSchema: rapid.SampledFrom([]string{"", "mb"}).Draw(t, "emb"),
			EnableMBM: rapid.Bool().Draw(t, "embm")}
	}
	for i, n := 0, rapid.IntRange(0, 5).Draw(t, "egid"); i < n; i++ {
		e.AdditionalGIDs = append(e.AdditionalGIDs, rapid.SampledFrom([]uint32{0, 1, 2, 5, 5, 4294967295}).Draw(t, fmt.Sprintf("eg%d", i)))
	}
	return e
}

var hookStagesAll = []string{"prestart", "createRuntime", "createContainer", "startContainer", "poststart", "poststop"}

// ---------------------------------------------------------------- the postcondition

func envName(s string) string { return strings.SplitN(s, "=", 2)[0] }

func envSubseq(env []string, name string) []string {
	var r []string
	for _, e := range env {
		if envName(e) == name {
			r = append(r, e)
		}
	}
	return r
}

func mountDepth(d string) int { return strings.Count(filepath.Clean(d), "/") }

func mountKey(m oci.Mount) string {
	return fmt.Sprintf("%s<-%s type=%s opts=%v", m.Destination, m.Source, m.Type, m.Options)
}

// stableWithin: for elements of equal depth, their order in now follows orig.
func stableWithin(orig, now []string) bool {
	pos := map[string]int{}
	for i, d := range orig {
		pos[d] = i
	}
	for i := 0; i < len(now); i++ {
		for j := i + 1; j < len(now); j++ {
			if mountDepth(now[i]) == mountDepth(now[j]) && pos[now[i]] > pos[now[j]] {
				return false
			}
		}
	}
	return true
}

func ociStage(h *oci.Hooks, n string) []oci.Hook {
	if h == nil {
		return nil
	}
	switch n {
	case "prestart":
		return h.Prestart
	case "createRuntime":
		return h.CreateRuntime
	case "createContainer":
		return h.CreateContainer
	case "startContainer":
		return h.StartContainer
	case "poststart":
		return h.Poststart
	}
	return h.Poststop
}

// restImage is the OCI image without the sections edits may touch.
func restImage(o *oci.Spec) string {
	b, _ := json.Marshal(o)
	var m map[string]any
	_ = json.Unmarshal(b, &m)
	del := func(path ...string) {
		cur := m
		for i, k := range path {
			if i == len(path)-1 {
				delete(cur, k)
				return
			}
			nx, ok := cur[k].(map[string]any)
			if !ok {
				return
			}
			cur = nx
		}
	}
	del("process", "env")
	del("process", "user", "additionalGids")
	del("linux", "devices")
	del("linux", "resources", "devices")
	del("linux", "intelRdt")
	del("mounts")
	del("hooks")
	out, _ := json.Marshal(gen.PruneZero(m))
	return string(out)
}

type c03Expect struct {
	typ          string
	major, minor int64
	minorEither  *int64
	node         *specs.DeviceNode
}

// checkEditsApplied evaluates the C03 postcondition. outcome is "ok",
// "must-error" (Apply correctly failed) or "dont-care".
func checkEditsApplied(h *hostEnv, before, after *oci.Spec, e *specs.ContainerEdits, applyErr error) (msg, outcome string) {
	mustErr, dontCare := false, false
	final := map[string]*c03Expect{}
	var perEdit []*c03Expect // resolved expectation per device-node edit, in edit order
	for _, dn := range e.DeviceNodes {
		x := &c03Expect{typ: dn.Type, major: dn.Major, minor: dn.Minor, node: dn}
		needsHost := dn.Type == "" || (dn.Type != "p" && dn.Major == 0)
		if needsHost {
			hp := dn.HostPath
			if hp == "" {
				hp = dn.Path
			}
			hn, known := h.nodes[hp]
			if !known || (hn.Typ != "c" && hn.Typ != "b" && hn.Typ != "p") {
				mustErr = true
				continue
			}
			if dn.Type == "" {
				x.typ = hn.Typ
			} else if dn.Type != hn.Typ {
				dontCare = true
				continue
			}
			if dn.Major == 0 && x.typ != "p" {
				x.major = hn.Major
				if dn.Minor != 0 && dn.Minor != hn.Minor {
					m := dn.Minor
					x.minorEither = &m
				}
				x.minor = hn.Minor
			}
		}
		final[dn.Path] = x
		perEdit = append(perEdit, x)
	}
	if mustErr {
		if applyErr == nil {
			return "a device node needs its host node, which is missing or not a device, but Apply returned no error", ""
		}
		return "", "must-error"
	}
	if dontCare {
		return "", "dont-care"
	}
	if applyErr != nil {
		return fmt.Sprintf("Apply failed on valid edits: %v", applyErr), ""
	}
	// --- env
	var benv, aenv []string
	if before.Process != nil {
		benv = before.Process.Env
	}
	if after.Process != nil {
		aenv = after.Process.Env
	}
	named := map[string]string{}
	for _, s := range e.Env {
		named[envName(s)] = s
	}
	for n, want := range named {
		sub := envSubseq(aenv, n)
		if len(sub) == 0 || sub[len(sub)-1] != want {
			return fmt.Sprintf("env %s: entries %q, the last one must be the last edit %q (env %q)", n, sub, want, aenv), ""
		}
	}
	names := map[string]bool{}
	for _, s := range benv {
		names[envName(s)] = true
	}
	for _, s := range aenv {
		n := envName(s)
		if _, ok := named[n]; ok {
			continue
		}
		if !names[n] {
			return fmt.Sprintf("env: variable %s appeared from nowhere (%q)", n, aenv), ""
		}
	}
	for n := range names {
		if _, ok := named[n]; ok {
			continue
		}
		if !reflect.DeepEqual(envSubseq(aenv, n), envSubseq(benv, n)) {
			return fmt.Sprintf("env %s not named by the edits changed: %q -> %q", n, benv, aenv), ""
		}
	}
	// --- device nodes
	var bdev, adev []oci.LinuxDevice
	var brules, arules []oci.LinuxDeviceCgroup
	if before.Linux != nil {
		bdev = before.Linux.Devices
		if before.Linux.Resources != nil {
			brules = before.Linux.Resources.Devices
		}
	}
	if after.Linux != nil {
		adev = after.Linux.Devices
		if after.Linux.Resources != nil {
			arules = after.Linux.Resources.Devices
		}
	}
	count := map[string]int{}
	for _, d := range adev {
		count[d.Path]++
	}
	var puid, pgid uint32
	if before.Process != nil {
		puid, pgid = before.Process.User.UID, before.Process.User.GID
	}
	for p, x := range final {
		if count[p] != 1 {
			return fmt.Sprintf("device path %s occurs %d times in the result, want exactly once", p, count[p]), ""
		}
		for _, d := range adev {
			if d.Path != p {
				continue
			}
			if d.Type != x.typ || d.Major != x.major || (d.Minor != x.minor && (x.minorEither == nil || d.Minor != *x.minorEither)) {
				return fmt.Sprintf("device %s: got type %q %d:%d, want %q %d:%d (last edit for that path, host node for unspecified attributes)", p, d.Type, d.Major, d.Minor, x.typ, x.major, x.minor), ""
			}
			wantUID, wantGID := x.node.UID, x.node.GID
			if wantUID == nil && puid != 0 {
				wantUID = &puid
			}
			if wantGID == nil && pgid != 0 {
				wantGID = &pgid
			}
			if !reflect.DeepEqual(d.UID, wantUID) {
				return fmt.Sprintf("device %s: uid %v, want %v (own value, else non-zero process uid, else unset)", p, ptrStr(d.UID), ptrStr(wantUID)), ""
			}
			if !reflect.DeepEqual(d.GID, wantGID) {
				return fmt.Sprintf("device %s: gid %v, want %v", p, ptrStr(d.GID), ptrStr(wantGID)), ""
			}
			if !reflect.DeepEqual(d.FileMode, x.node.FileMode) {
				return fmt.Sprintf("device %s: file mode differs from the edit", p), ""
			}
		}
	}
	var keptB, keptA []oci.LinuxDevice
	for _, d := range bdev {
		if _, ok := final[d.Path]; !ok {
			keptB = append(keptB, d)
		}
	}
	for _, d := range adev {
		if _, ok := final[d.Path]; !ok {
			keptA = append(keptA, d)
		}
	}
	if !(len(keptA) == 0 && len(keptB) == 0) && !reflect.DeepEqual(keptA, keptB) {
		return fmt.Sprintf("device nodes not named by the edits changed: %v -> %v", keptB, keptA), ""
	}
	// --- cgroup rules: originals are an unchanged prefix; the tail is one allow
	// rule per b/c node edit, in edit order ("u": either)
	if len(arules) < len(brules) || !(len(brules) == 0 || reflect.DeepEqual(arules[:len(brules)], brules)) {
		return fmt.Sprintf("existing device cgroup rules changed: %s -> %s", canonJSON(brules), canonJSON(arules)), ""
	}
	tail := arules[len(brules):]
	j := 0
	for _, x := range perEdit {
		if x.typ != "b" && x.typ != "c" && x.typ != "u" {
			continue
		}
		acc := x.node.Permissions
		if acc == "" {
			acc = "rwm"
		}
		matches := func(r oci.LinuxDeviceCgroup) bool {
			return r.Allow && r.Type == x.typ && r.Major != nil && *r.Major == x.major && r.Minor != nil &&
				(*r.Minor == x.minor || (x.minorEither != nil && *r.Minor == *x.minorEither)) && r.Access == acc
		}
		if j < len(tail) && matches(tail[j]) {
			j++
			continue
		}
		if x.typ == "u" {
			continue
		}
		got := "none"
		if j < len(tail) {
			got = canonJSON(tail[j])
		}
		return fmt.Sprintf("device %s (%s %d:%d): expected an allow rule with access %q at position %d of the appended rules, got %s (appended: %s)", x.node.Path, x.typ, x.major, x.minor, acc, j, got, canonJSON(tail)), ""
	}
	if j != len(tail) {
		return fmt.Sprintf("unexpected extra device cgroup rules appended: %s", canonJSON(tail[j:])), ""
	}
	// --- mounts
	if len(e.Mounts) == 0 {
		if !(len(before.Mounts) == 0 && len(after.Mounts) == 0) && !reflect.DeepEqual(before.Mounts, after.Mounts) {
			return "mounts changed although the edits contain no mount", ""
		}
	} else {
		lastE := map[string]int{}
		for i, m := range e.Mounts {
			lastE[m.ContainerPath] = i
		}
		var wantSet, gotSet []string
		for _, m := range before.Mounts {
			if _, ok := lastE[m.Destination]; !ok {
				wantSet = append(wantSet, mountKey(m))
			}
		}
		for d, i := range lastE {
			em := e.Mounts[i]
			wantSet = append(wantSet, mountKey(oci.Mount{Destination: d, Source: em.HostPath, Type: em.Type, Options: em.Options}))
		}
		for _, m := range after.Mounts {
			gotSet = append(gotSet, mountKey(m))
		}
		a, b := append([]string{}, wantSet...), append([]string{}, gotSet...)
		sort.Strings(a)
		sort.Strings(b)
		if !reflect.DeepEqual(a, b) {
			return fmt.Sprintf("mounts: got %q, want (as a set) %q - each destination must hold the last mount given for it", b, a), ""
		}
		for i := 1; i < len(after.Mounts); i++ {
			if mountDepth(after.Mounts[i-1].Destination) > mountDepth(after.Mounts[i].Destination) {
				return fmt.Sprintf("mounts not ordered by destination depth: %q", gotSet), ""
			}
		}
		var ub, ua []string
		for _, m := range before.Mounts {
			if _, ok := lastE[m.Destination]; !ok {
				ub = append(ub, m.Destination)
			}
		}
		for _, m := range after.Mounts {
			if _, ok := lastE[m.Destination]; !ok {
				ua = append(ua, m.Destination)
			}
		}
		if !stableWithin(ub, ua) {
			return fmt.Sprintf("original mounts of equal depth were reordered: %q -> %q", ub, ua), ""
		}
		type kv struct {
			d string
			i int
		}
		var eo []kv
		for d, i := range lastE {
			eo = append(eo, kv{d, i})
		}
		sort.Slice(eo, func(a, b int) bool { return eo[a].i < eo[b].i })
		var eorig, enow []string
		for _, x := range eo {
			eorig = append(eorig, x.d)
		}
		for _, m := range after.Mounts {
			if _, ok := lastE[m.Destination]; ok {
				enow = append(enow, m.Destination)
			}
		}
		if !stableWithin(eorig, enow) {
			return fmt.Sprintf("edit mounts of equal depth are not in edit order: edits %q, result %q", eorig, enow), ""
		}
		origDest := map[string]bool{}
		for _, m := range before.Mounts {
			origDest[m.Destination] = true
		}
		for i, m := range after.Mounts {
			if _, isE := lastE[m.Destination]; isE && !origDest[m.Destination] {
				for k := i + 1; k < len(after.Mounts); k++ {
					n := after.Mounts[k]
					if _, isE2 := lastE[n.Destination]; !isE2 && mountDepth(n.Destination) == mountDepth(m.Destination) {
						return fmt.Sprintf("new mount %s was placed before the original mount %s of equal depth", m.Destination, n.Destination), ""
					}
				}
			}
		}
	}
	// --- hooks
	for _, n := range hookStagesAll {
		want := append([]oci.Hook{}, ociStage(before.Hooks, n)...)
		for _, hk := range e.Hooks {
			if hk.HookName == n {
				want = append(want, oci.Hook{Path: hk.Path, Args: hk.Args, Env: hk.Env, Timeout: hk.Timeout})
			}
		}
		got := ociStage(after.Hooks, n)
		if len(want) == 0 && len(got) == 0 {
			continue
		}
		if canonJSON(got) != canonJSON(want) {
			return fmt.Sprintf("hooks of stage %s: got %s, want %s (existing hooks, then the edits' hooks in order)", n, canonJSON(got), canonJSON(want)), ""
		}
	}
	// --- additional GIDs
	var bg, ag []uint32
	if before.Process != nil {
		bg = before.Process.User.AdditionalGids
	}
	if after.Process != nil {
		ag = after.Process.User.AdditionalGids
	}
	wantG := append([]uint32{}, bg...)
	for _, g := range e.AdditionalGIDs {
		if g == 0 {
			continue
		}
		dup := false
		for _, x := range wantG {
			if x == g {
				dup = true
			}
		}
		if !dup {
			wantG = append(wantG, g)
		}
	}
	if !(len(wantG) == 0 && len(ag) == 0) && !reflect.DeepEqual(ag, wantG) {
		return fmt.Sprintf("additional GIDs: got %v, want %v (existing ones, then new non-zero ones without duplicates)", ag, wantG), ""
	}
	// --- Intel RDT
	var br, ar *oci.LinuxIntelRdt
	if before.Linux != nil {
		br = before.Linux.IntelRdt
	}
	if after.Linux != nil {
		ar = after.Linux.IntelRdt
	}
	if e.IntelRdt != nil {
		w := &oci.LinuxIntelRdt{ClosID: e.IntelRdt.ClosID, L3CacheSchema: e.IntelRdt.L3CacheSchema, MemBwSchema: e.IntelRdt.MemBwSchema, EnableCMT: e.IntelRdt.EnableCMT, EnableMBM: e.IntelRdt.EnableMBM}
		if !reflect.DeepEqual(ar, w) {
			return fmt.Sprintf("Intel RDT: got %s, want %s (the edit replaces the previous setting)", canonJSON(ar), canonJSON(w)), ""
		}
	} else if canonJSON(ar) != canonJSON(br) {
		return "Intel RDT changed without an RDT edit", ""
	}
	// --- everything else
	if r1, r2 := restImage(before), restImage(after); r1 != r2 {
		return fmt.Sprintf("something else in the OCI spec changed:\n before %s\n after  %s", r1, r2), ""
	}
	return "", "ok"
}

func ptrStr(p *uint32) string {
	if p == nil {
		return "unset"
	}
	return fmt.Sprint(*p)
}

type c03Case struct {
	OCI   *oci.Spec             `json:"oci"`
	Edits *specs.ContainerEdits `json:"edits"`
}

func c03Labels(h *hostEnv, o *oci.Spec, e *specs.ContainerEdits, outcome string) (labels []string, nontrivial bool) {
	set := map[string]bool{"outcome:" + outcome: true}
	if o.Process == nil {
		set["oci-process-nil"] = true
	} else if o.Process.User.UID != 0 || o.Process.User.GID != 0 {
		set["oci-process-uid-nonzero"] = true
	}
	if o.Linux == nil {
		set["oci-linux-nil"] = true
	}
	if o.Hooks == nil {
		set["oci-hooks-nil"] = true
	}
	names := map[string]int{}
	for _, s := range e.Env {
		names[envName(s)]++
	}
	for n, c := range names {
		if c > 1 {
			set["env-repeated-in-edits"] = true
			nontrivial = true
		}
		if o.Process != nil && len(envSubseq(o.Process.Env, n)) > 0 {
			set["env-hits-existing"] = true
			nontrivial = true
		}
	}
	paths := map[string]int{}
	for _, d := range e.DeviceNodes {
		paths[d.Path]++
		if d.Type == "" || (d.Type != "p" && d.Major == 0) {
			set["device-needs-host"] = true
			nontrivial = true
			hp := d.HostPath
			if hp == "" {
				hp = d.Path
				set["device-path-is-host-path"] = true
			}
			set["host:"+h.nodes[hp].Typ] = true
		}
		if d.UID == nil {
			set["device-uid-unset"] = true
		}
		set["device-type:"+d.Type] = true
	}
	for p, c := range paths {
		if c > 1 {
			set["device-path-repeated-in-edits"] = true
			nontrivial = true
		}
		if o.Linux != nil {
			for _, d := range o.Linux.Devices {
				if d.Path == p {
					set["device-hits-existing"] = true
					nontrivial = true
				}
			}
		}
	}
	dests := map[string]int{}
	for _, m := range e.Mounts {
		dests[m.ContainerPath]++
	}
	for d, c := range dests {
		if c > 1 {
			set["mount-dest-repeated-in-edits"] = true
			nontrivial = true
		}
		for _, m := range o.Mounts {
			if m.Destination == d {
				set["mount-hits-existing"] = true
				nontrivial = true
			}
		}
	}
	if len(e.Mounts) >= 13 {
		set["mounts-13-or-more"] = true
	}
	if e.IntelRdt != nil && o.Linux != nil && o.Linux.IntelRdt != nil {
		set["rdt-overrides-existing"] = true
		nontrivial = true
	}
	for _, g := range e.AdditionalGIDs {
		if g == 0 {
			set["gid-zero"] = true
		}
	}
	for k := range set {
		labels = append(labels, k)
	}
	sort.Strings(labels)
	return labels, nontrivial
}

func TestC03Rapid(t *testing.T) {
	rec := stats.For("C03", "rapid")
	h := newHostEnv(t)
	if h.fallback {
		rec.Label("env:no-mknod-fallback")
	}
	rapid.Check(t, func(t *rapid.T) {
		o := gen.OCISpec(t, "oci", gen.OCIOpts{})
		e := genC03Edits(t, h)
		before := gen.CloneOCI(o)
		ecopy := canonJSON(e)
		var aerr error
		if perr := catch(func() { aerr = (&cdi.ContainerEdits{ContainerEdits: e}).Apply(o) }); perr != nil {
			t.Fatalf("C03 violated: Apply panicked: %v\nOCI: %s\nedits: %s", perr, canonJSON(before), ecopy)
		}
		msg, outcome := checkEditsApplied(h, before, o, jsonCloneEdits(ecopy), aerr)
		if msg != "" {
			t.Fatalf("C03 violated: %s\nOCI before: %s\nedits: %s\nOCI after: %s", msg, canonJSON(before), ecopy, canonJSON(o))
		}
		labels, nontriv := c03Labels(h, before, jsonCloneEdits(ecopy), outcome)
		rec.Case(nontriv, canonJSON(before)+ecopy, func() any { return c03Case{before, jsonCloneEdits(ecopy)} }, labels...)
	})
}

func jsonCloneEdits(js string) *specs.ContainerEdits {
	var e specs.ContainerEdits
	if err := json.Unmarshal([]byte(js), &e); err != nil {
		panic(err)
	}
	return &e
}

func TestC03Regress(t *testing.T) {
	rec := stats.For("C03", "regress")
	h := newHostEnv(t)
	for _, rc := range loadRegressions(t, "C03") {
		var c c03Case
		if err := json.Unmarshal(rc.Case, &c); err != nil {
			t.Fatalf("bad C03 regression: %v", err)
		}
		// host paths in regressions are written relative to the host directory as $HOST/<name>
		js := strings.ReplaceAll(canonJSON(c.Edits), "$HOST", h.dir)
		e := jsonCloneEdits(js)
		before := gen.CloneOCI(c.OCI)
		aerr := (&cdi.ContainerEdits{ContainerEdits: e}).Apply(c.OCI)
		msg, _ := checkEditsApplied(h, before, c.OCI, jsonCloneEdits(js), aerr)
		if msg != "" {
			p := saveReplay("C03", "apply", c03Case{before, jsonCloneEdits(strings.ReplaceAll(js, h.dir, "$HOST"))})
			t.Fatalf("C03 violated on regression [%s]: %s\nreplay: %s", rc.Note, msg, p)
		}
		rec.Case(true, canonJSON(before)+js, func() any { return c03Case{before, e} }, "regression")
	}
}
