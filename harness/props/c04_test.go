package props

import (
	"fmt"
	"os"
	"reflect"
	"testing"

	oci "github.com/opencontainers/runtime-spec/specs-go"
	"pgregory.net/rapid"
	"tags.cncf.io/container-device-interface/pkg/cdi"
	"tags.cncf.io/container-device-interface/verifharness/gen"
	"tags.cncf.io/container-device-interface/verifharness/layout"
	"tags.cncf.io/container-device-interface/verifharness/stats"
)

var c04Invalid = []string{"", "a", "=", "/", "v1.com/gpu", "v1.com/gpu=", "=d0", "/gpu=d0", "v1.com/=d0", "v1.com/gpu=d0,", " v1.com/gpu=d0", "v1.com/gpu=d0 ",
	"v1.com/gpu==d0", "v1.com//gpu=d0", "v1.com/gpu=-d0", "1v.com/gpu=d0", "v1.com/gpu=d0=d1", "v1.com/gpu=*", "é/gpu=d0", "v1.com/gpu=d0\n"}

type c04Case struct {
	Layout  any       `json:"layout"`
	Request []string  `json:"request"`
	NilSpec bool      `json:"nilSpec"`
	OCI     *oci.Spec `json:"oci,omitempty"`
}

func TestC04Rapid(t *testing.T) {
	rec := stats.For("C04", "rapid")
	sc := newScratch(t)
	rapid.Check(t, func(t *rapid.T) {
		root := sc.dir()
		defer os.RemoveAll(root)
		l := layout.Generate(t, root, layout.Options{MaxFiles: 3})
		if err := l.Materialise(); err != nil {
			t.Fatalf("VERIF-HARNESS materialise: %v", err)
		}
		rOld := layout.Resolve(l)
		// one case in four: an auto-refresh cache whose watcher could not be created (descriptor shortage at creation);
		// such a cache rescans on every call, so the injection itself is the call that refreshes - with whatever
		// per-file errors the directories hold - and it always answers from the current content
		watcherless := false
		var cache *cdi.Cache
		if rapid.IntRange(0, 3).Draw(t, "watcherlessCache") == 0 {
			if restore, err := exhaustDescriptors(); err == nil {
				cache, _ = cdi.NewCache(cdi.WithSpecDirs(l.Paths()...), cdi.WithAutoRefresh(true))
				restore()
				defer cache.Configure(cdi.WithAutoRefresh(false))
				watcherless = true
				rec.Label("cache-without-watcher")
			}
		}
		if cache == nil {
			cache, _ = cdi.NewCache(cdi.WithSpecDirs(l.Paths()...), cdi.WithAutoRefresh(false))
		}
		// stale variant: the directories change after the cache was populated and no Refresh() is
		// called. Whether a manual cache may look at the directories again is left open; but one
		// request must be answered from ONE content: the one before or the one after the change.
		stale := rapid.IntRange(0, 2).Draw(t, "staleCache") == 0
		r := rOld
		if stale {
			for i, n := 0, rapid.IntRange(1, 3).Draw(t, "nChanges"); i < n; i++ {
				var ex []int
				for di, d := range l.Pool {
					if d.Exists {
						ex = append(ex, di)
					}
				}
				d := rapid.SampledFrom(ex).Draw(t, fmt.Sprintf("chgDir%d", i))
				names := l.Pool[d].SortedFileNames()
				if len(names) > 0 && rapid.Bool().Draw(t, fmt.Sprintf("chgRemove%d", i)) {
					_ = l.RemoveFile(d, rapid.SampledFrom(names).Draw(t, fmt.Sprintf("chgFile%d", i)))
				} else {
					name := rapid.SampledFrom([]string{"n1.json", "n2.yaml", "a.json"}).Draw(t, fmt.Sprintf("chgName%d", i))
					_ = l.PutFile(d, l.NewValidFile(t, fmt.Sprintf("chg%d", i), l.Pool[d].Name, name, nil, "", nil))
				}
			}
			r = layout.Resolve(l) // the content after the change; rOld is the content before
		}
		if watcherless {
			rOld, stale = r, false
		}
		// names of several classes
		resolvable := r.SortedDevices()
		if stale {
			seen := map[string]bool{}
			for _, q := range resolvable {
				seen[q] = true
			}
			for _, q := range rOld.SortedDevices() {
				if !seen[q] {
					resolvable = append(resolvable, q)
				}
			}
		}
		var conflicted, onlyInvalidOrUnknown []string
		for _, q := range layout.AllNames() {
			if r.Conflicted[q] {
				conflicted = append(conflicted, q)
			} else if _, ok := r.Devices[q]; !ok {
				onlyInvalidOrUnknown = append(onlyInvalidOrUnknown, q)
			}
		}
		n := rapid.SampledFrom([]int{0, 1, 1, 2, 2, 3, 4, 5, 6, 8, 12, 17, 33, 70}).Draw(t, "nReq") // also the empty request, and long ones
		var req []string
		classes := map[string]bool{}
		for i := 0; i < n; i++ {
			var name, class string
			switch k := rapid.IntRange(0, 9).Draw(t, fmt.Sprintf("req%dKind", i)); {
			case k <= 3 && len(resolvable) > 0:
				name, class = rapid.SampledFrom(resolvable).Draw(t, fmt.Sprintf("req%d", i)), "resolvable"
			case k <= 5 && len(onlyInvalidOrUnknown) > 0:
				name, class = rapid.SampledFrom(onlyInvalidOrUnknown).Draw(t, fmt.Sprintf("req%d", i)), "unknown"
			case k == 6 && len(conflicted) > 0:
				name, class = rapid.SampledFrom(conflicted).Draw(t, fmt.Sprintf("req%d", i)), "conflict-removed"
			case k == 7:
				name, class = rapid.SampledFrom(c04Invalid).Draw(t, fmt.Sprintf("req%d", i)), "invalid-syntax"
			case k == 8 && len(req) > 0:
				name, class = rapid.SampledFrom(req).Draw(t, fmt.Sprintf("req%d", i)), "repetition"
			default:
				name, class = "other.vendor/cls="+rapid.SampledFrom([]string{"x", "d0"}).Draw(t, fmt.Sprintf("req%d", i)), "unknown"
			}
			req = append(req, name)
			classes[class] = true
		}
		var want, wantOld []string
		for _, q := range req {
			if _, ok := r.Devices[q]; !ok {
				want = append(want, q)
			}
			if _, ok := rOld.Devices[q]; !ok {
				wantOld = append(wantOld, q)
			}
		}
		nilSpec := rapid.IntRange(0, 9).Draw(t, "nilSpec") == 0
		var o, before *oci.Spec
		if !nilSpec {
			o = gen.OCISpec(t, "oci", gen.OCIOpts{})
			before = gen.CloneOCI(o)
		}
		reqCopy := append([]string{}, req...)
		var unresolved []string
		var ierr error
		if perr := catch(func() { unresolved, ierr = cache.InjectDevices(o, req...) }); perr != nil {
			t.Fatalf("C04 violated: InjectDevices panicked: %v\nrequest %q", perr, req)
		}
		fail := func(msg string) {
			t.Fatalf("C04 violated: %s\nrequest: %q\nreturned: %q, %v\nlayout: %s", msg, reqCopy, unresolved, ierr, canonJSON(l.Describe()))
		}
		if !reflect.DeepEqual(req, reqCopy) && !(len(req) == 0 && len(reqCopy) == 0) {
			fail("the request slice was modified")
		}
		if stale && !nilSpec && !reflect.DeepEqual(want, wantOld) {
			// the answer must be the one for the content before or the one for the content after the change
			if reflect.DeepEqual(unresolved, wantOld) && (ierr != nil) == (len(wantOld) > 0) {
				want = wantOld
			} else if !(reflect.DeepEqual(unresolved, want) && (ierr != nil) == (len(want) > 0)) {
				fail(fmt.Sprintf("the directories changed after the cache was populated; the request must be answered from one content: before the change %q do not resolve, after it %q; got %q", wantOld, want, unresolved))
			}
		}
		switch {
		case nilSpec:
			if ierr == nil {
				fail("nil OCI spec accepted")
			}
			if !reflect.DeepEqual(unresolved, reqCopy) && !(len(unresolved) == 0 && len(reqCopy) == 0) {
				fail("nil OCI spec: all requested names must be returned")
			}
		case len(want) > 0:
			if ierr == nil {
				fail(fmt.Sprintf("no error although %q do not resolve", want))
			}
			if !reflect.DeepEqual(unresolved, want) {
				fail(fmt.Sprintf("unresolved names %q, want exactly %q in request order", unresolved, want))
			}
			if a, b := gen.OCIImage(before), gen.OCIImage(o); a != b {
				fail(fmt.Sprintf("the OCI spec was modified although the request failed:\n before %s\n after  %s", a, b))
			}
			if !reflect.DeepEqual(gen.CloneOCI(o), before) {
				fail("the OCI spec was modified although the request failed")
			}
		default:
			if ierr != nil || unresolved != nil {
				fail("a fully resolvable request failed")
			}
			// (what the edits look like is C02's business)
		}
		mixed := classes["resolvable"] && len(want) > 0 && !nilSpec
		var labels []string
		for c := range classes {
			labels = append(labels, "req:"+c)
		}
		if nilSpec {
			labels = append(labels, "nil-oci-spec")
		}
		if mixed {
			labels = append(labels, "mixed-resolvable-and-unresolvable")
		}
		if len(want) == 0 {
			labels = append(labels, "all-resolve")
		}
		if len(want) >= 9 {
			labels = append(labels, "nine-or-more-unresolvable-names")
		}
		if stale {
			labels = append(labels, "directories-changed-without-refresh")
			if !reflect.DeepEqual(want, wantOld) {
				labels = append(labels, "stale-and-fresh-answers-differ")
			}
		}
		populated := !nilSpec && (before.Process != nil || before.Linux != nil || len(before.Mounts) > 0)
		c := c04Case{Layout: l.Describe(), Request: reqCopy, NilSpec: nilSpec}
		rec.Case(mixed && populated, canonJSON(c), func() any { c.OCI = before; return c }, labels...)
	})
}
