package props

import (
	"bytes"
	"encoding/json"
	"fmt"
	"os"
	"path/filepath"
	"sort"
	"strings"
	"testing"

	"pgregory.net/rapid"
	"tags.cncf.io/container-device-interface/pkg/cdi"
	specs "tags.cncf.io/container-device-interface/specs-go"
	"tags.cncf.io/container-device-interface/verifharness/gen"
	"tags.cncf.io/container-device-interface/verifharness/model"
	"tags.cncf.io/container-device-interface/verifharness/stats"
)

type obj = map[string]any

// ---------------------------------------------------------------- tree helpers

func devicesOf(doc obj) []any {
	l, _ := doc["devices"].([]any)
	return l
}

func editsOf(doc obj, dev int) obj {
	var holder obj
	if dev < 0 {
		holder = doc
	} else {
		holder = devicesOf(doc)[dev].(obj)
	}
	e, ok := holder["containerEdits"].(obj)
	if !ok {
		e = obj{}
		holder["containerEdits"] = e
	}
	return e
}

func insertElem(e obj, list string, elem any, first bool) {
	l, _ := e[list].([]any)
	if first {
		l = append([]any{elem}, l...)
	} else {
		l = append(l, elem)
	}
	e[list] = l
}

func num(s string) json.Number { return json.Number(s) }

func ensureVersion(doc obj, v string) {
	cur, _ := doc["cdiVersion"].(string)
	if !model.IsReleased(cur) || model.CmpVersion(cur, v) < 0 {
		doc["cdiVersion"] = v
	}
}

// ---------------------------------------------------------------- defects

// An editsDefect puts one violation into a containerEdits object.
type editsDefect struct {
	name string
	minV string // version the injected structure needs ("" = none)
	list string // list the bad element is inserted into ("" = applied to the object itself)
	elem func() any
	mut  func(e obj)
}

func strN(n int) string { return strings.Repeat("c", n) }

// decorateDefect adds valid optional members (those the element does not have yet) to a defective list element:
// the one defect must reject the document whatever else the element carries.
func decorateDefect(t *rapid.T, doc obj, list string, o obj) (added []string) {
	type member struct {
		key  string
		val  any
		minV string
		with map[string]any // members that go along with it
	}
	var cands []member
	switch list {
	case "deviceNodes":
		cands = []member{{key: "hostPath", val: "/dev/vy", minV: "0.5.0"}, {key: "type", val: "c", with: map[string]any{"major": num("1")}}, {key: "minor", val: num("3")},
			{key: "fileMode", val: num("420")}, {key: "uid", val: num("0")}, {key: "gid", val: num("7")}, {key: "permissions", val: "rw"}}
	case "hooks":
		cands = []member{{key: "args", val: []any{"h", "--x"}}, {key: "env", val: []any{"HOOK=1"}}, {key: "timeout", val: num("5")}}
	case "mounts":
		cands = []member{{key: "options", val: []any{"ro", "bind"}}, {key: "type", val: "bind", minV: "0.4.0"}}
	}
	for _, m := range cands {
		if _, has := o[m.key]; has {
			continue
		}
		clash := false
		for k := range m.with {
			if _, has := o[k]; has {
				clash = true
			}
		}
		if clash || !rapid.Bool().Draw(t, "decorate-"+m.key) {
			continue
		}
		o[m.key] = m.val
		for k, v := range m.with {
			o[k] = v
		}
		if m.minV != "" {
			ensureVersion(doc, m.minV)
		}
		added = append(added, m.key)
	}
	sort.Strings(added)
	return added
}

var editsDefects = []editsDefect{
	{name: "env-no-assignment", list: "env", elem: func() any { return "NOASSIGNMENT" }},
	{name: "env-leading-eq", list: "env", elem: func() any { return "=value" }},
	{name: "env-empty", list: "env", elem: func() any { return "" }},
	{name: "env-elem-object", list: "env", elem: func() any { return obj{} }},
	{name: "env-scalar-for-list", mut: func(e obj) { e["env"] = "A=b" }},
	{name: "devnode-empty-path", list: "deviceNodes", elem: func() any { return obj{"path": ""} }},
	{name: "devnode-missing-path", list: "deviceNodes", elem: func() any { return obj{"type": "c", "major": num("1")} }},
	{name: "devnode-type-x", list: "deviceNodes", elem: func() any { return obj{"path": "/dev/vx", "type": "x"} }},
	{name: "devnode-type-bc", list: "deviceNodes", elem: func() any { return obj{"path": "/dev/vx", "type": "bc"} }},
	{name: "devnode-type-upper", list: "deviceNodes", elem: func() any { return obj{"path": "/dev/vx", "type": "C"} }},
	{name: "devnode-perm-x", list: "deviceNodes", elem: func() any { return obj{"path": "/dev/vx", "type": "c", "major": num("1"), "permissions": "rwx"} }},
	{name: "devnode-perm-upper", list: "deviceNodes", elem: func() any { return obj{"path": "/dev/vx", "type": "c", "major": num("1"), "permissions": "R"} }},
	{name: "devnode-perm-x-fifo", list: "deviceNodes", elem: func() any { return obj{"path": "/dev/vx", "type": "p", "permissions": "rwx"} }},
	{name: "devnode-perm-x-block", list: "deviceNodes", elem: func() any { return obj{"path": "/dev/vx", "type": "b", "major": num("8"), "permissions": "x"} }},
	{name: "devnode-perm-x-unbuffered", list: "deviceNodes", elem: func() any { return obj{"path": "/dev/vx", "type": "u", "major": num("1"), "permissions": "read-write"} }},
	{name: "devnode-perm-x-untyped", list: "deviceNodes", elem: func() any { return obj{"path": "/dev/vx", "permissions": "rwz"} }},
	{name: "devnode-unknown-member", list: "deviceNodes", elem: func() any { return obj{"path": "/dev/vx", "verifUnknown": num("1")} }},
	{name: "devnode-null", list: "deviceNodes", elem: func() any { return nil }},
	{name: "devnode-major-string", list: "deviceNodes", elem: func() any { return obj{"path": "/dev/vx", "major": "1"} }},
	{name: "devnode-minor-float", list: "deviceNodes", elem: func() any { return obj{"path": "/dev/vx", "minor": num("1.5")} }},
	{name: "devnode-uid-negative", list: "deviceNodes", elem: func() any { return obj{"path": "/dev/vx", "uid": num("-1")} }},
	{name: "devnode-gid-overflow", list: "deviceNodes", elem: func() any { return obj{"path": "/dev/vx", "gid": num("4294967296")} }},
	{name: "devnode-major-overflow", list: "deviceNodes", elem: func() any { return obj{"path": "/dev/vx", "major": num("9223372036854775808")} }},
	{name: "devnode-filemode-string", list: "deviceNodes", elem: func() any { return obj{"path": "/dev/vx", "fileMode": "0644"} }},
	{name: "devnode-path-list", list: "deviceNodes", elem: func() any { return obj{"path": []any{"/dev/vx"}} }},
	{name: "devnode-scalar", list: "deviceNodes", elem: func() any { return "/dev/vx" }},
	{name: "devnodes-object-for-list", mut: func(e obj) { e["deviceNodes"] = obj{"path": "/dev/vx"} }},
	{name: "hook-unknown-stage", list: "hooks", elem: func() any { return obj{"hookName": "preStart", "path": "/bin/h"} }},
	{name: "hook-empty-stage", list: "hooks", elem: func() any { return obj{"hookName": "", "path": "/bin/h"} }},
	{name: "hook-missing-stage", list: "hooks", elem: func() any { return obj{"path": "/bin/h"} }},
	{name: "hook-empty-path", list: "hooks", elem: func() any { return obj{"hookName": "prestart", "path": ""} }},
	{name: "hook-missing-path", list: "hooks", elem: func() any { return obj{"hookName": "poststop"} }},
	{name: "hook-env-no-assignment", list: "hooks", elem: func() any { return obj{"hookName": "prestart", "path": "/bin/h", "env": []any{"A=b", "NOASSIGNMENT"}} }},
	{name: "hook-env-leading-eq", list: "hooks", elem: func() any { return obj{"hookName": "createRuntime", "path": "/bin/h", "env": []any{"=v"}} }},
	{name: "hook-unknown-member", list: "hooks", elem: func() any { return obj{"hookName": "prestart", "path": "/bin/h", "verifUnknown": "x"} }},
	{name: "hook-null", list: "hooks", elem: func() any { return nil }},
	{name: "hook-timeout-string", list: "hooks", elem: func() any { return obj{"hookName": "prestart", "path": "/bin/h", "timeout": "1"} }},
	{name: "hook-timeout-float", list: "hooks", elem: func() any { return obj{"hookName": "prestart", "path": "/bin/h", "timeout": num("1.5")} }},
	{name: "hook-args-scalar", list: "hooks", elem: func() any { return obj{"hookName": "prestart", "path": "/bin/h", "args": "a"} }},
	{name: "hook-env-object", list: "hooks", elem: func() any { return obj{"hookName": "prestart", "path": "/bin/h", "env": obj{}} }},
	{name: "mount-empty-host", list: "mounts", elem: func() any { return obj{"hostPath": "", "containerPath": "/c"} }},
	{name: "mount-missing-host", list: "mounts", elem: func() any { return obj{"containerPath": "/c"} }},
	{name: "mount-empty-container", list: "mounts", elem: func() any { return obj{"hostPath": "/h", "containerPath": ""} }},
	{name: "mount-missing-container", list: "mounts", elem: func() any { return obj{"hostPath": "/h"} }},
	{name: "mount-unknown-member", list: "mounts", elem: func() any { return obj{"hostPath": "/h", "containerPath": "/c", "verifUnknown": true} }},
	{name: "mount-null", list: "mounts", elem: func() any { return nil }},
	{name: "mount-options-scalar", list: "mounts", elem: func() any { return obj{"hostPath": "/h", "containerPath": "/c", "options": "ro"} }},
	{name: "mount-scalar", list: "mounts", elem: func() any { return "/h:/c" }},
	{name: "rdt-closid-dot", minV: "0.7.0", mut: func(e obj) { e["intelRdt"] = obj{"closID": "."} }},
	{name: "rdt-closid-dotdot", minV: "0.7.0", mut: func(e obj) { e["intelRdt"] = obj{"closID": ".."} }},
	{name: "rdt-closid-slash", minV: "0.7.0", mut: func(e obj) { e["intelRdt"] = obj{"closID": "a/b"} }},
	{name: "rdt-closid-newline", minV: "0.7.0", mut: func(e obj) { e["intelRdt"] = obj{"closID": "a\nb"} }},
	{name: "rdt-closid-slash-first", minV: "0.7.0", mut: func(e obj) { e["intelRdt"] = obj{"closID": "/ab"} }},
	{name: "rdt-closid-slash-last", minV: "0.7.0", mut: func(e obj) { e["intelRdt"] = obj{"closID": "ab/"} }},
	{name: "rdt-closid-slash-only", minV: "0.7.0", mut: func(e obj) { e["intelRdt"] = obj{"closID": "/"} }},
	{name: "rdt-closid-newline-first", minV: "0.7.0", mut: func(e obj) { e["intelRdt"] = obj{"closID": "\nab"} }},
	{name: "rdt-closid-newline-last", minV: "0.7.0", mut: func(e obj) { e["intelRdt"] = obj{"closID": "ab\n"} }},
	{name: "rdt-closid-newline-only", minV: "0.7.0", mut: func(e obj) { e["intelRdt"] = obj{"closID": "\n"} }},
	{name: "rdt-closid-4096", minV: "0.7.0", mut: func(e obj) { e["intelRdt"] = obj{"closID": strN(4096)} }},
	{name: "rdt-unknown-member", minV: "0.7.0", mut: func(e obj) { e["intelRdt"] = obj{"closID": "ok", "verifUnknown": num("1")} }},
	{name: "rdt-scalar-for-object", minV: "0.7.0", mut: func(e obj) { e["intelRdt"] = "clos" }},
	{name: "rdt-list-for-object", minV: "0.7.0", mut: func(e obj) { e["intelRdt"] = []any{obj{"closID": "ok"}} }},
	{name: "rdt-cmt-string", minV: "0.7.0", mut: func(e obj) { e["intelRdt"] = obj{"closID": "ok", "enableCMT": "yes"} }},
	{name: "rdt-mbm-number", minV: "0.7.0", mut: func(e obj) { e["intelRdt"] = obj{"closID": "ok", "enableMBM": num("1")} }},
	{name: "gids-negative", minV: "0.7.0", list: "additionalGids", elem: func() any { return num("-1") }},
	{name: "gids-overflow", minV: "0.7.0", list: "additionalGids", elem: func() any { return num("4294967296") }},
	{name: "gids-string", minV: "0.7.0", list: "additionalGids", elem: func() any { return "1" }},
	{name: "gids-float", minV: "0.7.0", list: "additionalGids", elem: func() any { return num("1.5") }},
	{name: "gids-scalar-for-list", minV: "0.7.0", mut: func(e obj) { e["additionalGids"] = num("5") }},
	{name: "edits-unknown-member", mut: func(e obj) { e["verifUnknown"] = num("1") }},
}

// badAnnotationKeys are not valid Kubernetes qualified names.
var badAnnotationKeys = []string{"bad key!", "", "a/b/c", "-a", "a-", "/a", "a/", "a_b/c", strN(64), "x.com/" + strN(64), "a b", "é"}

// a deviceDefect puts one violation into device k.
type deviceDefect struct {
	name   string
	minV   string
	needs2 bool
	mut    func(t *rapid.T, doc obj, k int)
}

var deviceDefects = []deviceDefect{
	{name: "device-unknown-member", mut: func(t *rapid.T, doc obj, k int) { devicesOf(doc)[k].(obj)["verifUnknown"] = "x" }},
	{name: "device-name-invalid", mut: func(t *rapid.T, doc obj, k int) {
		devicesOf(doc)[k].(obj)["name"] = rapid.SampledFrom([]string{"", "-a", "a-", "a b", "a/b", "a=b", "é", "_a", "a.", ":a", "a,b"}).Draw(t, "badName")
	}},
	{name: "device-name-missing", mut: func(t *rapid.T, doc obj, k int) { delete(devicesOf(doc)[k].(obj), "name") }},
	{name: "device-name-list", mut: func(t *rapid.T, doc obj, k int) { devicesOf(doc)[k].(obj)["name"] = []any{"a"} }},
	{name: "device-name-object", mut: func(t *rapid.T, doc obj, k int) { devicesOf(doc)[k].(obj)["name"] = obj{} }},
	{name: "device-duplicate-name", needs2: true, mut: func(t *rapid.T, doc obj, k int) {
		ds := devicesOf(doc)
		j := rapid.IntRange(0, len(ds)-2).Draw(t, "dupOf")
		if j >= k {
			j++
		}
		ds[k].(obj)["name"] = ds[j].(obj)["name"]
	}},
	{name: "device-edits-empty-object", mut: func(t *rapid.T, doc obj, k int) { devicesOf(doc)[k].(obj)["containerEdits"] = obj{} }},
	{name: "device-edits-empty-lists", mut: func(t *rapid.T, doc obj, k int) {
		devicesOf(doc)[k].(obj)["containerEdits"] = obj{"env": []any{}, "deviceNodes": []any{}, "hooks": []any{}, "mounts": []any{}}
	}},
	{name: "device-edits-null", mut: func(t *rapid.T, doc obj, k int) { devicesOf(doc)[k].(obj)["containerEdits"] = nil }},
	{name: "device-edits-missing", mut: func(t *rapid.T, doc obj, k int) { delete(devicesOf(doc)[k].(obj), "containerEdits") }},
	{name: "device-edits-list-for-object", mut: func(t *rapid.T, doc obj, k int) { devicesOf(doc)[k].(obj)["containerEdits"] = []any{} }},
	{name: "device-edits-scalar", mut: func(t *rapid.T, doc obj, k int) { devicesOf(doc)[k].(obj)["containerEdits"] = num("3") }},
	{name: "device-null", mut: func(t *rapid.T, doc obj, k int) { devicesOf(doc)[k] = nil }},
	{name: "device-scalar", mut: func(t *rapid.T, doc obj, k int) { devicesOf(doc)[k] = "dev" }},
	{name: "device-list", mut: func(t *rapid.T, doc obj, k int) { devicesOf(doc)[k] = []any{} }},
	{name: "device-annotation-bad-key", minV: "0.6.0", mut: func(t *rapid.T, doc obj, k int) {
		d := devicesOf(doc)[k].(obj)
		a, _ := d["annotations"].(obj)
		if a == nil {
			a = obj{}
		}
		a[rapid.SampledFrom(badAnnotationKeys).Draw(t, "badKey")] = "v"
		d["annotations"] = a
	}},
	{name: "device-annotations-too-big", minV: "0.6.0", mut: func(t *rapid.T, doc obj, k int) {
		devicesOf(doc)[k].(obj)["annotations"] = obj{"big": strN(256*1024 - 2)}
	}},
	{name: "device-annotations-list", minV: "0.6.0", mut: func(t *rapid.T, doc obj, k int) { devicesOf(doc)[k].(obj)["annotations"] = []any{"a"} }},
	{name: "device-annotation-value-list", minV: "0.6.0", mut: func(t *rapid.T, doc obj, k int) {
		devicesOf(doc)[k].(obj)["annotations"] = obj{"k": []any{"v"}}
	}},
}

type specDefect struct {
	name string
	mut  func(t *rapid.T, doc obj)
}

var unreleased = []string{"0.9.0", "1.0.1", "0.3", "abc", "", "2.0.0", "1.1.0", "0.0.0", "1", "0.7.0-rc1", "1.0.0.0", " 1.0.0", "0.10.0"}

var badKinds = []string{"vendorclass", "/class", "vendor/", "1vendor/class", "ven dor/class", "vendor-/class", "_vendor/class", "vendor/1class",
	"vendor/cl ass", "vendor/class-", "vendor/cl/ass", "", "/", "vendor//class", "vendor/class/", "vendor=/class", "vendor/cl=ass", "véndor/class",
	"vendor/clàss", "vendor/class.", ".vendor/class", "vendor/.class", "vendor.com/cl:ass", "v@ndor/class"}

var specDefects = []specDefect{
	{name: "spec-unknown-member", mut: func(t *rapid.T, doc obj) { doc["verifUnknown"] = obj{} }},
	{name: "version-unreleased", mut: func(t *rapid.T, doc obj) { doc["cdiVersion"] = rapid.SampledFrom(unreleased).Draw(t, "badVersion") }},
	{name: "version-missing", mut: func(t *rapid.T, doc obj) { delete(doc, "cdiVersion") }},
	{name: "version-null", mut: func(t *rapid.T, doc obj) { doc["cdiVersion"] = nil }},
	{name: "version-list", mut: func(t *rapid.T, doc obj) { doc["cdiVersion"] = []any{"1.0.0"} }},
	{name: "kind-invalid", mut: func(t *rapid.T, doc obj) { doc["kind"] = rapid.SampledFrom(badKinds).Draw(t, "badKind") }},
	{name: "kind-missing", mut: func(t *rapid.T, doc obj) { delete(doc, "kind") }},
	{name: "kind-null", mut: func(t *rapid.T, doc obj) { doc["kind"] = nil }},
	{name: "kind-list", mut: func(t *rapid.T, doc obj) { doc["kind"] = []any{"vendor/class"} }},
	{name: "devices-missing", mut: func(t *rapid.T, doc obj) { delete(doc, "devices") }},
	{name: "devices-empty", mut: func(t *rapid.T, doc obj) { doc["devices"] = []any{} }},
	{name: "devices-null", mut: func(t *rapid.T, doc obj) { doc["devices"] = nil }},
	{name: "devices-object", mut: func(t *rapid.T, doc obj) {
		doc["devices"] = obj{"name": "d", "containerEdits": obj{"env": []any{"A=b"}}}
	}},
	{name: "devices-scalar", mut: func(t *rapid.T, doc obj) { doc["devices"] = "dev" }},
	{name: "spec-annotation-bad-key", mut: func(t *rapid.T, doc obj) {
		a, _ := doc["annotations"].(obj)
		if a == nil {
			a = obj{}
		}
		a[rapid.SampledFrom(badAnnotationKeys).Draw(t, "badKey")] = "v"
		doc["annotations"] = a
		ensureVersion(doc, "0.6.0")
	}},
	{name: "spec-annotations-too-big", mut: func(t *rapid.T, doc obj) {
		doc["annotations"] = obj{"big": strN(256*1024 - 2)}
		ensureVersion(doc, "0.6.0")
	}},
	{name: "spec-annotations-list", mut: func(t *rapid.T, doc obj) { doc["annotations"] = []any{"a"}; ensureVersion(doc, "0.6.0") }},
	{name: "spec-annotations-scalar", mut: func(t *rapid.T, doc obj) { doc["annotations"] = "a=b"; ensureVersion(doc, "0.6.0") }},
	{name: "spec-annotation-value-object", mut: func(t *rapid.T, doc obj) { doc["annotations"] = obj{"k": obj{}}; ensureVersion(doc, "0.6.0") }},
	{name: "spec-edits-list-for-object", mut: func(t *rapid.T, doc obj) { doc["containerEdits"] = []any{} }},
	{name: "spec-edits-scalar", mut: func(t *rapid.T, doc obj) { doc["containerEdits"] = num("3") }},
}

// version-too-low: a version-gated feature is placed at spec level or in
// device k, and the declared version is a released one below what it needs.
var gatedFeatures = []struct {
	name, need string
	devOnly    bool
	specOnly   bool
	put        func(doc obj, dev int)
}{
	{name: "mountType", need: "0.4.0", put: func(doc obj, dev int) {
		insertElem(editsOf(doc, dev), "mounts", obj{"hostPath": "/h", "containerPath": "/vc", "type": "tmpfs"}, false)
	}},
	{name: "hostPath", need: "0.5.0", put: func(doc obj, dev int) {
		insertElem(editsOf(doc, dev), "deviceNodes", obj{"path": "/dev/vx", "hostPath": "/dev/vy", "type": "c", "major": num("1")}, false)
	}},
	{name: "digitName", need: "0.5.0", devOnly: true, put: func(doc obj, dev int) {
		d := devicesOf(doc)[dev].(obj)
		if n := d["name"].(string); len(n)%2 == 0 {
			d["name"] = "0" + n
		} else {
			d["name"] = string(rune('1' + dev)) // a one-character name that is a digit
		}
	}},
	{name: "annotations", need: "0.6.0", put: func(doc obj, dev int) {
		if dev < 0 {
			doc["annotations"] = obj{"k": "v"}
		} else {
			devicesOf(doc)[dev].(obj)["annotations"] = obj{"k": "v"}
		}
	}},
	{name: "dottedClass", need: "0.6.0", specOnly: true, put: func(doc obj, dev int) {
		doc["kind"] = doc["kind"].(string) + ".x"
	}},
	{name: "intelRdt", need: "0.7.0", put: func(doc obj, dev int) { editsOf(doc, dev)["intelRdt"] = obj{"closID": "c"} }},
	{name: "additionalGids", need: "0.7.0", put: func(doc obj, dev int) {
		insertElem(editsOf(doc, dev), "additionalGids", num("7"), false)
	}},
}

type c05Case struct {
	Valid     bool     `json:"valid"`
	Defect    string   `json:"defect"`
	Where     string   `json:"where"` // "", spec, device-first, device-middle, device-last, device-only
	First     bool     `json:"firstElem"`
	Decorated []string `json:"defectiveElementAlsoHas,omitempty"`
	NDev      int      `json:"nDev"`
	Doc       any      `json:"doc"`
	nontriv   bool
}

func devPos(k, n int) string {
	switch {
	case n == 1:
		return "device-only"
	case k == 0:
		return "device-first"
	case k == n-1:
		return "device-last"
	}
	return "device-middle"
}

// genC05 draws a valid document and, unless valid, injects one defect.
func genC05(t *rapid.T, wantValid bool) c05Case {
	maxVer := ""
	if !wantValid && rapid.IntRange(0, 5).Draw(t, "lowDoc") == 0 {
		// documents that use only early features, so that version-too-low defects have room
		maxVer = rapid.SampledFrom([]string{"0.3.0", "0.4.0", "0.5.0", "0.6.0"}).Draw(t, "maxVer")
	}
	s := gen.Spec(t, "s", gen.SpecOpts{MaxVer: maxVer, MaxDevices: 4})
	doc := gen.ToTree(s).(obj)
	n := len(devicesOf(doc))
	c := c05Case{Valid: true, NDev: n, Doc: doc}
	if wantValid {
		// non-trivial valid document: a version-gating feature in a non-last device
		if n >= 2 {
			rest := *s
			rest.Devices = s.Devices[n-1:]
			if model.CmpVersion(model.RequiredVersion(&rest), model.RequiredVersion(s)) < 0 {
				c.nontriv = true
			}
		}
		return c
	}
	c.Valid = false
	dev := -1
	pickDev := func() int {
		// first / middle / last with equal weight
		switch rapid.IntRange(0, 2).Draw(t, "devPos") {
		case 0:
			return 0
		case 1:
			return n - 1
		}
		return rapid.IntRange(0, n-1).Draw(t, "devIdx")
	}
	switch rapid.IntRange(0, 9).Draw(t, "defectClass") {
	case 0, 1, 2, 3: // edits defect at spec level or in device k
		d := rapid.SampledFrom(editsDefects).Draw(t, "editsDefect")
		if rapid.IntRange(0, 3).Draw(t, "atSpec") != 0 {
			dev = pickDev()
			c.Where = devPos(dev, n)
		} else {
			c.Where = "spec"
		}
		e := editsOf(doc, dev)
		c.First = rapid.Bool().Draw(t, "firstElem")
		if d.list != "" {
			el := d.elem()
			if o, ok := el.(obj); ok && rapid.Bool().Draw(t, "decorateDefect") {
				c.Decorated = decorateDefect(t, doc, d.list, o)
			}
			insertElem(e, d.list, el, c.First)
		} else {
			d.mut(e)
		}
		if d.minV != "" {
			ensureVersion(doc, d.minV)
		}
		c.Defect = d.name
	case 4, 5, 6: // device defect
		d := rapid.SampledFrom(deviceDefects).Draw(t, "deviceDefect")
		if d.needs2 && n < 2 {
			d = deviceDefects[0]
		}
		dev = pickDev()
		c.Where = devPos(dev, n)
		d.mut(t, doc, dev)
		if d.minV != "" {
			ensureVersion(doc, d.minV)
		}
		c.Defect = d.name
	case 7: // spec defect
		d := rapid.SampledFrom(specDefects).Draw(t, "specDefect")
		d.mut(t, doc)
		c.Where = "spec"
		c.Defect = d.name
	default: // version too low for a feature at spec level or in device k
		f := rapid.SampledFrom(gatedFeatures).Draw(t, "gated")
		switch {
		case f.specOnly:
			c.Where = "spec"
		case f.devOnly || rapid.IntRange(0, 3).Draw(t, "atSpec") != 0:
			dev = pickDev()
			c.Where = devPos(dev, n)
		default:
			c.Where = "spec"
		}
		f.put(doc, dev)
		var lower []string
		for _, v := range model.Released {
			if model.CmpVersion(v, f.need) < 0 {
				lower = append(lower, v)
			}
		}
		doc["cdiVersion"] = rapid.SampledFrom(lower).Draw(t, "lowVersion")
		c.Defect = "version-too-low-for-" + f.name
	}
	c.nontriv = n >= 2 && dev >= 0 && dev != n-1
	return c
}

// ---------------------------------------------------------------- oracle

type c05Env struct {
	base string
	seq  int
}

func newC05Env(t testing.TB) *c05Env {
	return &c05Env{base: t.TempDir()}
}

// checkC05 runs the three admission routes on one document. expectValid is
// known by construction.
func (env *c05Env) check(doc any, expectValid bool) (msg string) {
	env.seq++
	dir := filepath.Join(env.base, fmt.Sprintf("c%d", env.seq%64))
	_ = os.RemoveAll(dir)
	if err := os.MkdirAll(filepath.Join(dir, "specs"), 0o755); err != nil {
		panic(err)
	}
	defer os.RemoveAll(dir)
	jsonData := gen.EncodeJSON(doc)
	yamlData := gen.EncodeYAML(doc)
	if !gen.YAMLDecodesTo(yamlData, doc) {
		return "VERIF-HARNESS: YAML emitter does not round-trip this tree"
	}
	verdict := func(err error) string {
		if err == nil {
			return "accepted"
		}
		return "rejected (" + err.Error() + ")"
	}
	want := "rejected"
	if expectValid {
		want = "accepted"
	}
	err := catch(func() {
		// route 1: ReadSpec of the file, both encodings
		for _, enc := range []struct {
			ext  string
			data []byte
		}{{".json", jsonData}, {".yaml", yamlData}} {
			p := filepath.Join(dir, "doc"+enc.ext)
			if e := os.WriteFile(p, enc.data, 0o644); e != nil {
				panic(e)
			}
			spec, e := cdi.ReadSpec(p, 0)
			if (e == nil) != expectValid {
				msg = fmt.Sprintf("ReadSpec(%s): %s, want %s", enc.ext, verdict(e), want)
				return
			}
			if e == nil && spec == nil {
				msg = "ReadSpec returned nil Spec and nil error"
				return
			}
		}
		// route 2: a cache over a directory holding only that file
		for _, enc := range []struct {
			ext  string
			data []byte
		}{{".json", jsonData}, {".yaml", yamlData}} {
			sd := filepath.Join(dir, "specs")
			p := filepath.Join(sd, "doc"+enc.ext)
			if e := os.WriteFile(p, enc.data, 0o644); e != nil {
				panic(e)
			}
			cache, _ := cdi.NewCache(cdi.WithSpecDirs(sd), cdi.WithAutoRefresh(false))
			rerr := cache.Refresh()
			errs := cache.GetErrors()
			devs := cache.ListDevices()
			_ = os.Remove(p)
			if expectValid {
				if rerr != nil || len(errs) != 0 {
					msg = fmt.Sprintf("cache(%s): valid document reported in error: %v %v", enc.ext, rerr, errs)
					return
				}
				wantDevs := qualifiedNames(doc)
				if strings.Join(devs, ",") != strings.Join(wantDevs, ",") {
					msg = fmt.Sprintf("cache(%s): devices %v, want %v", enc.ext, devs, wantDevs)
					return
				}
			} else {
				if rerr == nil {
					msg = fmt.Sprintf("cache(%s): Refresh returned nil for an invalid document", enc.ext)
					return
				}
				if _, ok := errs[p]; !ok {
					msg = fmt.Sprintf("cache(%s): no error entry for the invalid file (errors: %v)", enc.ext, errs)
					return
				}
				if len(devs) != 0 {
					msg = fmt.Sprintf("cache(%s): invalid document contributed devices %v", enc.ext, devs)
					return
				}
			}
		}
		// route 3: the writer, when the document is representable as a specs.Spec
		var raw specs.Spec
		dec := json.NewDecoder(bytes.NewReader(jsonData))
		dec.DisallowUnknownFields()
		if dec.Decode(&raw) == nil && isObject(doc) {
			wd := filepath.Join(dir, "out")
			cache, _ := cdi.NewCache(cdi.WithSpecDirs(wd), cdi.WithAutoRefresh(false))
			for _, name := range []string{"w.json", "w.yaml"} {
				e := cache.WriteSpec(&raw, name)
				if (e == nil) != expectValid {
					msg = fmt.Sprintf("WriteSpec(%s): %s, want %s", name, verdict(e), want)
					return
				}
				if _, serr := os.Stat(filepath.Join(wd, name)); (serr == nil) != expectValid {
					msg = fmt.Sprintf("WriteSpec(%s): file exists=%v for a document that must be %s", name, serr == nil, want)
					return
				}
			}
		}
	})
	if err != nil {
		return err.Error()
	}
	return msg
}

func isObject(doc any) bool { _, ok := doc.(obj); return ok }

func qualifiedNames(doc any) []string {
	d := doc.(obj)
	var out []string
	for _, x := range devicesOf(d) {
		out = append(out, d["kind"].(string)+"="+x.(obj)["name"].(string))
	}
	sort.Strings(out)
	return out
}

func (c c05Case) labels() []string {
	if c.Valid {
		l := []string{"valid", fmt.Sprintf("ndev-%d", c.NDev)}
		if c.nontriv {
			l = append(l, "valid-gating-feature-not-last")
		}
		return l
	}
	l := []string{"defect", "defect:" + c.Defect, "where:" + c.Where, "cell:" + c.Defect + "@" + c.Where}
	if c.nontriv {
		l = append(l, "defect-in-non-last-device")
	}
	if len(c.Decorated) > 0 {
		l = append(l, "defective-element-with-valid-optional-members")
		for _, k := range c.Decorated {
			l = append(l, "decorated:"+c.Defect+"+"+k)
		}
	}
	return l
}

func propC05(rec *stats.Rec, env *c05Env) func(t *rapid.T) {
	return func(t *rapid.T) {
		wantValid := rapid.IntRange(0, 3).Draw(t, "wantValid") == 0
		c := genC05(t, wantValid)
		if msg := env.check(c.Doc, c.Valid); msg != "" {
			if strings.HasPrefix(msg, "VERIF-HARNESS") {
				rec.Excluded("yaml-emitter-roundtrip")
				t.Skip(msg)
			}
			t.Fatalf("C05 violated (valid=%v defect=%s where=%s): %s\ndocument: %s", c.Valid, c.Defect, c.Where, msg, clip(string(gen.EncodeJSON(c.Doc)), 3000))
		}
		rec.Case(c.nontriv, gen.CanonTree(c.Doc), func() any { return c }, c.labels()...)
	}
}

func clip(s string, n int) string {
	if len(s) > n {
		return s[:n] + "...(" + fmt.Sprint(len(s)) + " bytes)"
	}
	return s
}

func TestC05Rapid(t *testing.T) {
	rapid.Check(t, propC05(stats.For("C05", "rapid"), newC05Env(t)))
}

// richDoc is the fixed document for the exhaustive defect-kind x position
// table: three devices, every optional member present.
func richDoc() obj {
	mode := os.FileMode(0o644)
	uid := uint32(1000)
	to := 5
	edits := func(tag string) specs.ContainerEdits {
		return specs.ContainerEdits{
			Env:            []string{"A_" + tag + "=1", "B=2"},
			DeviceNodes:    []*specs.DeviceNode{{Path: "/dev/a" + tag, HostPath: "/dev/h" + tag, Type: "c", Major: 1, Minor: 3, FileMode: &mode, Permissions: "rw", UID: &uid, GID: &uid}, {Path: "/dev/b" + tag}},
			Hooks:          []*specs.Hook{{HookName: "prestart", Path: "/bin/hook", Args: []string{"hook", tag}, Env: []string{"H=1"}, Timeout: &to}, {HookName: "poststop", Path: "/bin/hook2"}},
			Mounts:         []*specs.Mount{{HostPath: "/h" + tag, ContainerPath: "/c" + tag, Options: []string{"ro", "bind"}, Type: "bind"}, {HostPath: "/h2", ContainerPath: "/c2" + tag}},
			IntelRdt:       &specs.IntelRdt{ClosID: "clos" + tag, L3CacheSchema: "L3:0=f", MemBwSchema: "MB:0=50", EnableCMT: true},
			AdditionalGIDs: []uint32{1, 2},
		}
	}
	s := &specs.Spec{Version: "1.0.0", Kind: "vendor.com/class", Annotations: map[string]string{"a.b/c": "d"},
		Devices: []specs.Device{
			{Name: "dev0", Annotations: map[string]string{"k0": "v"}, ContainerEdits: edits("0")},
			{Name: "dev1", Annotations: map[string]string{"k1": "v"}, ContainerEdits: edits("1")},
			{Name: "dev2", Annotations: map[string]string{"k2": "v"}, ContainerEdits: edits("2")},
		},
		ContainerEdits: edits("s"),
	}
	return gen.ToTree(s).(obj)
}

// TestC05Table enumerates every defect kind at every position (spec level,
// first/middle/last device, first/last list element) on one rich document.
func TestC05Table(t *testing.T) {
	rec := stats.For("C05", "table")
	env := newC05Env(t)
	idx, n := shard()
	count := 0
	run := func(defect, where string, first bool, doc obj, nontriv bool) {
		count++
		if count%n != idx {
			return
		}
		c := c05Case{Valid: false, Defect: defect, Where: where, First: first, NDev: 3, Doc: doc, nontriv: nontriv}
		if msg := env.check(doc, false); msg != "" {
			p := saveReplay("C05", "doc", c)
			t.Fatalf("C05 violated (defect=%s where=%s first=%v): %s\nreplay: %s", defect, where, first, msg, p)
		}
		rec.Case(nontriv, gen.CanonTree(doc), func() any { return obj{"defect": defect, "where": where, "firstElem": first} }, c.labels()...)
	}
	if msg := env.check(richDoc(), true); msg != "" {
		t.Fatalf("C05 violated: the rich valid document is not admitted: %s", msg)
	}
	rec.Case(true, "rich-valid", nil, "valid")
	// rapid is used here only as a deterministic source for the sampled sub-choices of a few defects
	for _, d := range editsDefects {
		for dev := -1; dev < 3; dev++ {
			for _, first := range []bool{true, false} {
				doc := richDoc()
				e := editsOf(doc, dev)
				if d.list != "" {
					insertElem(e, d.list, d.elem(), first)
				} else {
					if !first {
						continue
					}
					d.mut(e)
				}
				where := "spec"
				if dev >= 0 {
					where = devPos(dev, 3)
				}
				run(d.name, where, first, doc, dev >= 0 && dev < 2)
			}
		}
	}
	for _, key := range badAnnotationKeys {
		for dev := -1; dev < 3; dev++ {
			doc := richDoc()
			where := "spec"
			if dev < 0 {
				doc["annotations"].(obj)[key] = "v"
			} else {
				devicesOf(doc)[dev].(obj)["annotations"].(obj)[key] = "v"
				where = devPos(dev, 3)
			}
			run("annotation-bad-key", where, false, doc, dev >= 0 && dev < 2)
		}
	}
	for _, k := range badKinds {
		doc := richDoc()
		doc["kind"] = k
		run("kind-invalid", "spec", false, doc, false)
	}
	for _, v := range unreleased {
		doc := richDoc()
		doc["cdiVersion"] = v
		run("version-unreleased", "spec", false, doc, false)
	}
	for _, nm := range []string{"", "-a", "a-", "a b", "a/b", "a=b", "é", "_a", "a.", ":a", "a,b"} {
		for dev := 0; dev < 3; dev++ {
			doc := richDoc()
			devicesOf(doc)[dev].(obj)["name"] = nm
			run("device-name-invalid", devPos(dev, 3), false, doc, dev < 2)
		}
	}
	// version too low: each gated feature alone in a minimal three-device document
	for _, f := range gatedFeatures {
		for dev := -1; dev < 3; dev++ {
			if (dev < 0 && f.devOnly) || (dev >= 0 && f.specOnly) {
				continue
			}
			for _, v := range model.Released {
				if model.CmpVersion(v, f.need) >= 0 {
					continue
				}
				s := &specs.Spec{Version: v, Kind: "vendor.com/class"}
				for i := 0; i < 3; i++ {
					s.Devices = append(s.Devices, specs.Device{Name: fmt.Sprintf("dev%d", i), ContainerEdits: specs.ContainerEdits{Env: []string{"A=b"}}})
				}
				doc := gen.ToTree(s).(obj)
				if msg := env.check(gen.CloneTree(doc), true); msg != "" {
					t.Fatalf("C05 violated: minimal valid document with version %s is not admitted: %s", v, msg)
				}
				f.put(doc, dev)
				where := "spec"
				if dev >= 0 {
					where = devPos(dev, 3)
				}
				run("version-too-low-for-"+f.name, where, false, doc, dev >= 0 && dev < 2)
			}
		}
	}
}

func TestC05Regress(t *testing.T) {
	rec := stats.For("C05", "regress")
	env := newC05Env(t)
	for _, rc := range loadRegressions(t, "C05") {
		var c struct {
			Valid bool            `json:"valid"`
			Doc   json.RawMessage `json:"doc"`
		}
		if err := json.Unmarshal(rc.Case, &c); err != nil {
			t.Fatalf("bad C05 regression: %v", err)
		}
		doc := gen.ParseJSONTree(c.Doc)
		if msg := env.check(doc, c.Valid); msg != "" {
			p := saveReplay("C05", "doc", obj{"valid": c.Valid, "doc": doc})
			t.Fatalf("C05 violated on regression [%s]: %s\nreplay: %s", rc.Note, msg, p)
		}
		rec.Case(true, gen.CanonTree(doc), func() any { return obj{"valid": c.Valid, "doc": doc} }, "regression")
	}
}
