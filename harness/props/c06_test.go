package props

import (
	"encoding/json"
	"fmt"
	"os"
	"path/filepath"
	"strings"
	"testing"

	"pgregory.net/rapid"
	"tags.cncf.io/container-device-interface/pkg/cdi"
	specs "tags.cncf.io/container-device-interface/specs-go"
	"tags.cncf.io/container-device-interface/verifharness/model"
	"tags.cncf.io/container-device-interface/verifharness/stats"
)

// C06 features; a placement is -2 (absent), -1 (spec level) or a device index.
const (
	fMountType = iota
	fHostPath
	fRdt
	fGids
	fAnnot
	fDigitName   // device only
	fDottedClass // spec only
	nFeatures
)

var featureNames = []string{"mountType", "hostPath", "intelRdt", "additionalGids", "annotations", "digitName", "dottedClass"}

type c06Case struct {
	NDev     int     `json:"nDev"`
	Places   [][]int `json:"places"`                        // per feature: list of placements (-1 spec level, k device k)
	Perm     []int   `json:"perm"`                          // device order
	Declared string  `json:"declared"`                      // declared cdiVersion
	OneChar  bool    `json:"oneCharDigitName,omitempty"`    // digit-first names are a single digit
	Pad      int     `json:"plainElementsBefore,omitempty"` // plain list elements placed before (and one after) the featured element
	Variant  int     `json:"featureVariant,omitempty"`      // which spelling of each feature is used (0 = the plain one)
	Decoys   bool    `json:"emptyDecoys,omitempty"`         // present-but-empty maps and lists wherever the feature is NOT used
}

func addFeature(e *specs.ContainerEdits, f int, pad int, variant int) {
	switch f {
	case fMountType:
		for i := 0; i < pad; i++ {
			e.Mounts = append(e.Mounts, &specs.Mount{HostPath: "/h", ContainerPath: fmt.Sprintf("/plain%d", i)})
		}
		e.Mounts = append(e.Mounts, &specs.Mount{HostPath: "/h", ContainerPath: "/c", Type: []string{"tmpfs", "bind", " ", "none"}[variant%4]})
		if pad > 0 {
			e.Mounts = append(e.Mounts, &specs.Mount{HostPath: "/h", ContainerPath: "/after"})
		}
	case fHostPath:
		for i := 0; i < pad; i++ {
			e.DeviceNodes = append(e.DeviceNodes, &specs.DeviceNode{Path: fmt.Sprintf("/dev/plain%d", i), Type: "c", Major: 1, Minor: 3})
		}
		// (a hostPath equal to the path is still a use of the field)
		e.DeviceNodes = append(e.DeviceNodes, &specs.DeviceNode{Path: "/dev/x", HostPath: []string{"/dev/y", "/dev/x", "y"}[variant%3], Type: "c", Major: 1, Minor: 3})
		if pad > 0 {
			e.DeviceNodes = append(e.DeviceNodes, &specs.DeviceNode{Path: "/dev/after", Type: "c", Major: 1, Minor: 3})
		}
	case fRdt:
		// every spelling of the section counts, also one that sets no class: only monitoring flags, one schema, nothing
		e.IntelRdt = []*specs.IntelRdt{{ClosID: "c1"}, {}, {EnableCMT: true}, {EnableMBM: true}, {L3CacheSchema: "L3:0=f"}, {MemBwSchema: "MB:0=50"}}[variant%6]
	case fGids:
		e.AdditionalGIDs = append(e.AdditionalGIDs, []uint32{5, 0, 4294967295}[variant%3])
		if pad > 0 {
			e.AdditionalGIDs = append(e.AdditionalGIDs, 0)
		}
	}
}

func (c c06Case) build() *specs.Spec {
	s := &specs.Spec{Version: c.Declared, Kind: "vendor.com/class"}
	devs := make([]specs.Device, c.NDev)
	for i := range devs {
		devs[i] = specs.Device{Name: fmt.Sprintf("dev%d", i), ContainerEdits: specs.ContainerEdits{Env: []string{fmt.Sprintf("D%d=1", i)}}}
	}
	for f, places := range c.Places {
		for _, p := range places {
			switch {
			case f == fDottedClass:
				s.Kind = "vendor.com/cl.ass"
			case f == fDigitName:
				if p >= 0 {
					devs[p].Name = fmt.Sprintf("%ddev", p)
					if c.OneChar {
						devs[p].Name = fmt.Sprintf("%d", p)
					}
				}
			case f == fAnnot:
				if p == -1 {
					s.Annotations = map[string]string{"k": "v"}
				} else {
					devs[p].Annotations = map[string]string{"k": "v"}
				}
			case p == -1:
				addFeature(&s.ContainerEdits, f, c.Pad, c.Variant)
			default:
				addFeature(&devs[p].ContainerEdits, f, c.Pad, c.Variant)
			}
		}
	}
	if c.Decoys {
		// an empty map / list is not a use of the field (it is not even written to a file)
		if s.Annotations == nil {
			s.Annotations = map[string]string{}
		}
		if s.ContainerEdits.AdditionalGIDs == nil {
			s.ContainerEdits.AdditionalGIDs = []uint32{}
		}
		for i := range devs {
			if devs[i].Annotations == nil {
				devs[i].Annotations = map[string]string{}
			}
			if devs[i].ContainerEdits.AdditionalGIDs == nil {
				devs[i].ContainerEdits.AdditionalGIDs = []uint32{}
			}
			if devs[i].ContainerEdits.Mounts == nil {
				devs[i].ContainerEdits.Mounts = []*specs.Mount{}
			}
		}
	}
	for _, i := range c.Perm {
		s.Devices = append(s.Devices, devs[i])
	}
	return s
}

func (c c06Case) nontrivial() bool {
	// >= 2 devices and a feature placed in a device that is not last in the final order
	if c.NDev < 2 {
		return false
	}
	last := c.Perm[len(c.Perm)-1]
	for f, places := range c.Places {
		if f == fDottedClass {
			continue
		}
		for _, p := range places {
			if p >= 0 && p != last {
				return true
			}
		}
	}
	return false
}

func (c c06Case) labels(need string) []string {
	l := []string{"need-" + need, fmt.Sprintf("ndev-%d", c.NDev)}
	if c.nontrivial() {
		l = append(l, "feature-in-non-last-device")
	}
	for f, places := range c.Places {
		for _, p := range places {
			if p == -1 {
				l = append(l, featureNames[f]+"@spec")
			} else {
				l = append(l, featureNames[f]+"@device")
			}
		}
	}
	if model.IsReleased(c.Declared) {
		l = append(l, "declared-released")
	} else {
		l = append(l, "declared-unreleased")
	}
	return l
}

// checkC06 is the oracle for one case; dir != "" also checks the file route.
func checkC06(c c06Case, dir string) (msg string) {
	err := catch(func() {
		s := c.build()
		need := model.RequiredVersion(s)
		got, e := specs.MinimumRequiredVersion(s)
		if e != nil {
			msg = fmt.Sprintf("MinimumRequiredVersion error: %v", e)
			return
		}
		if got != need {
			msg = fmt.Sprintf("MinimumRequiredVersion=%s, features used require %s", got, need)
			return
		}
		if g2, _ := cdi.MinimumRequiredVersion(s); g2 != need {
			msg = fmt.Sprintf("cdi.MinimumRequiredVersion=%s, want %s", g2, need)
			return
		}
		want := model.VersionValid(s)
		if gotValid := specs.ValidateVersion(s) == nil; gotValid != want {
			msg = fmt.Sprintf("ValidateVersion valid=%v for declared %q with required %s, want %v", gotValid, c.Declared, need, want)
			return
		}
		if dir != "" {
			b, _ := json.Marshal(s)
			for _, ext := range []string{".json", ".yaml"} {
				p := filepath.Join(dir, "c06"+ext)
				if e := os.WriteFile(p, b, 0o644); e != nil {
					panic(e)
				}
				_, rerr := cdi.ReadSpec(p, 0)
				if (rerr == nil) != want {
					msg = fmt.Sprintf("ReadSpec(%s) err=%v for declared %q with required %s; want valid=%v", ext, rerr, c.Declared, need, want)
					return
				}
			}
		}
	})
	if err != nil {
		return err.Error()
	}
	return msg
}

func canonC06(c c06Case) string { b, _ := json.Marshal(c); return string(b) }

var declaredPool = []string{"0.3.0", "0.4.0", "0.5.0", "0.6.0", "0.7.0", "0.8.0", "1.0.0", // released
	"0.1.0", "0.2.0", "0.9.0", "1.0.1", "1.1.0", "2.0.0", "0.3", "1", "1.0", "abc", "", "0.7.0-rc1", "0.7.0+x", "00.7.0", "0.7.00", " 0.7.0", "0.7.0 ", "0.7", "1.0.0.0", "-1.0.0", "0.10.0", "10.0.0"}

func permutations(n int) [][]int {
	if n == 1 {
		return [][]int{{0}}
	}
	var out [][]int
	for _, p := range permutations(n - 1) {
		for i := 0; i <= len(p); i++ {
			q := append(append(append([]int{}, p[:i]...), n-1), p[i:]...)
			out = append(out, q)
		}
	}
	return out
}

func failC06(t testing.TB, c c06Case, msg string) {
	p := saveReplay("C06", "c06", c)
	t.Fatalf("C06 violated on %s: %s\nreplay: %s", canonC06(c), msg, p)
}

// TestC06Exhaustive: all 2^7 feature subsets x all single placements of each
// feature for 1..3 devices x all device orders x all released versions (plus
// unreleased strings on a slice).
func TestC06Exhaustive(t *testing.T) {
	rec := stats.For("C06", "exhaustive")
	idx, n := shard()
	dir := t.TempDir()
	var count int64
	for nd := 1; nd <= 3; nd++ {
		perms := permutations(nd)
		// placement options per feature: -2 absent, -1 spec, 0..nd-1
		var opts [nFeatures][]int
		for f := 0; f < nFeatures; f++ {
			opts[f] = []int{-2}
			if f != fDigitName {
				opts[f] = append(opts[f], -1)
			}
			if f != fDottedClass {
				for k := 0; k < nd; k++ {
					opts[f] = append(opts[f], k)
				}
			}
		}
		var place [nFeatures]int
		var walk func(f int)
		walk = func(f int) {
			if f == nFeatures {
				count++
				if count%int64(n) != int64(idx) {
					return
				}
				c := c06Case{NDev: nd, Places: make([][]int, nFeatures)}
				for i, p := range place {
					if p != -2 {
						c.Places[i] = []int{p}
					} else {
						c.Places[i] = []int{}
					}
				}
				var firstNeed string
				c.OneChar = len(c.Places[fDigitName]) > 0 && count%2 == 0
				c.Pad = int(count % 3)
				c.Variant = int(count % 7)
				c.Decoys = count%5 == 0
				for pi, perm := range perms {
					c.Perm = perm
					for vi, v := range declaredPool {
						if vi >= 7 && (count+int64(pi))%8 != 0 {
							continue // unreleased strings on one eighth of the Specs
						}
						c.Declared = v
						d := ""
						if (count+int64(vi)+int64(pi))%64 == 0 {
							d = dir
						}
						if msg := checkC06(c, d); msg != "" {
							failC06(t, c, msg)
						}
						need := model.RequiredVersion(c.build())
						if firstNeed == "" {
							firstNeed = need
						} else if need != firstNeed {
							t.Fatalf("model bug: required version depends on order")
						}
						cc := c
						cc.Perm = append([]int{}, perm...)
						rec.Case(c.nontrivial(), canonC06(cc), func() any { return cc }, c.labels(need)...)
					}
				}
				return
			}
			for _, p := range opts[f] {
				place[f] = p
				walk(f + 1)
			}
		}
		walk(0)
	}
	rec.Add("exhaustive_specs", count)
}

func genC06(t *rapid.T) c06Case {
	nd := rapid.IntRange(1, 4).Draw(t, "nDev")
	c := c06Case{NDev: nd, Places: make([][]int, nFeatures)}
	for f := 0; f < nFeatures; f++ {
		c.Places[f] = []int{}
		if rapid.IntRange(0, 2).Draw(t, featureNames[f]+"Used") != 0 {
			continue
		}
		// a non-empty subset of the possible places
		lo := -1
		if f == fDigitName {
			lo = 0
		}
		hi := nd - 1
		if f == fDottedClass {
			hi = -1
		}
		for p := lo; p <= hi; p++ {
			if rapid.IntRange(0, 2).Draw(t, fmt.Sprintf("%s@%d", featureNames[f], p)) == 0 {
				c.Places[f] = append(c.Places[f], p)
			}
		}
		if len(c.Places[f]) == 0 {
			c.Places[f] = append(c.Places[f], rapid.IntRange(lo, hi).Draw(t, featureNames[f]+"At"))
		}
	}
	c.Perm = rapid.Permutation(seq(nd)).Draw(t, "perm")
	c.OneChar = rapid.Bool().Draw(t, "oneCharDigitName")
	c.Pad = rapid.IntRange(0, 2).Draw(t, "plainElementsBefore")
	c.Variant = rapid.IntRange(0, 11).Draw(t, "featureVariant")
	c.Decoys = rapid.IntRange(0, 3).Draw(t, "emptyDecoys") == 0
	if rapid.IntRange(0, 3).Draw(t, "declKind") == 0 {
		c.Declared = rapid.OneOf(rapid.SampledFrom(declaredPool), rapid.StringMatching(`[0-9v. ]{0,7}`), rapid.String()).Draw(t, "declared")
		// a leading "v" is a stated don't-care
		c.Declared = strings.TrimLeft(c.Declared, "v")
	} else {
		c.Declared = rapid.SampledFrom(model.Released).Draw(t, "declared")
	}
	return c
}

func seq(n int) []int {
	s := make([]int, n)
	for i := range s {
		s[i] = i
	}
	return s
}

func TestC06Rapid(t *testing.T) {
	rec := stats.For("C06", "rapid")
	dir := t.TempDir()
	rapid.Check(t, func(t *rapid.T) {
		c := genC06(t)
		d := ""
		if rapid.IntRange(0, 15).Draw(t, "fileRoute") == 0 {
			d = dir
		}
		if msg := checkC06(c, d); msg != "" {
			t.Fatalf("C06 violated on %s: %s", canonC06(c), msg)
		}
		// metamorphic: another device order gives the same minimum version
		c2 := c
		c2.Perm = rapid.Permutation(seq(c.NDev)).Draw(t, "perm2")
		a, _ := specs.MinimumRequiredVersion(c.build())
		b, _ := specs.MinimumRequiredVersion(c2.build())
		if a != b {
			t.Fatalf("C06 violated: minimum version %s for device order %v but %s for %v (case %s)", a, c.Perm, b, c2.Perm, canonC06(c))
		}
		rec.Case(c.nontrivial(), canonC06(c), func() any { return c }, c.labels(model.RequiredVersion(c.build()))...)
	})
}

func TestC06Regress(t *testing.T) {
	rec := stats.For("C06", "regress")
	dir := t.TempDir()
	for _, rc := range loadRegressions(t, "C06") {
		var c c06Case
		if err := json.Unmarshal(rc.Case, &c); err != nil {
			t.Fatalf("bad C06 regression: %v", err)
		}
		if msg := checkC06(c, dir); msg != "" {
			failC06(t, c, msg+" ["+rc.Note+"]")
		}
		rec.Case(true, canonC06(c), func() any { return c }, "regression")
	}
}
