package props

import (
	"encoding/hex"
	"encoding/json"
	"fmt"
	"strings"
	"testing"

	"pgregory.net/rapid"
	"tags.cncf.io/container-device-interface/pkg/parser"
	"tags.cncf.io/container-device-interface/verifharness/model"
	"tags.cncf.io/container-device-interface/verifharness/stats"
)

// checkQName is the C07 oracle for one string. It returns "" if every
// entry point of pkg/parser behaves as the statement says on s.
func checkQName(s string) (msg string) {
	err := catch(func() {
		mv, mc, mn, mok := model.QualifiedName(s)
		v, c, n, perr := parser.ParseQualifiedName(s)
		switch {
		case mok && perr != nil:
			msg = fmt.Sprintf("valid qualified name rejected: %v", perr)
		case mok && (v != mv || c != mc || n != mn):
			msg = fmt.Sprintf("parts (%q,%q,%q), want (%q,%q,%q)", v, c, n, mv, mc, mn)
		case mok && parser.QualifiedName(v, c, n) != s:
			msg = fmt.Sprintf("parts (%q,%q,%q) do not recompose to the input", v, c, n)
		case !mok && perr == nil:
			msg = fmt.Sprintf("invalid qualified name accepted as (%q,%q,%q)", v, c, n)
		case !mok && (v != "" || c != "" || n != s):
			msg = fmt.Sprintf("on failure got (%q,%q,%q), want (\"\",\"\",input)", v, c, n)
		}
		if msg != "" {
			return
		}
		if parser.IsQualifiedName(s) != mok {
			msg = fmt.Sprintf("IsQualifiedName=%v, model says %v", !mok, mok)
			return
		}
		// ParseDevice: either ("", "", s) or parts that recompose to s.
		dv, dc, dn := parser.ParseDevice(s)
		if dv == "" && dc == "" {
			if dn != s {
				msg = fmt.Sprintf("ParseDevice failure returned name %q", dn)
				return
			}
		} else if dv+"/"+dc+"="+dn != s {
			msg = fmt.Sprintf("ParseDevice parts (%q,%q,%q) do not recompose", dv, dc, dn)
			return
		}
		if mok && (dv != mv || dc != mc || dn != mn) {
			msg = fmt.Sprintf("ParseDevice parts (%q,%q,%q) on a valid name", dv, dc, dn)
			return
		}
		// the part validators on the whole string; twice, in both orders: the verdict
		// is a function of the string, not of what was validated before
		for round := 0; round < 2 && msg == ""; round++ {
			if (parser.ValidateVendorName(s) == nil) != model.VendorOrClass(s) {
				msg = fmt.Sprintf("ValidateVendorName disagrees with the grammar (call round %d)", round)
			} else if (parser.ValidateClassName(s) == nil) != model.VendorOrClass(s) {
				msg = fmt.Sprintf("ValidateClassName disagrees with the grammar (call round %d)", round)
			} else if (parser.ValidateDeviceName(s) == nil) != model.DeviceName(s) {
				msg = fmt.Sprintf("ValidateDeviceName disagrees with the grammar (call round %d)", round)
			}
		}
		if msg == "" && parser.IsQualifiedName(s) != mok {
			msg = "IsQualifiedName changed its verdict after the parts were validated separately"
		}
		// a valid device name used as vendor and as class, and a valid vendor used as device name
		if msg == "" && model.DeviceName(s) && len(s) <= 40 {
			for _, q := range []string{s + "/cls=dev", "vendor/" + s + "=dev", "vendor/cls=" + s} {
				_, _, _, qok := model.QualifiedName(q)
				if parser.IsQualifiedName(q) != qok {
					msg = fmt.Sprintf("IsQualifiedName(%q) = %v, the grammar says %v", q, !qok, qok)
					break
				}
			}
		}
	})
	if err != nil {
		return err.Error()
	}
	return msg
}

// checkCompose: composing any valid parts and parsing returns those parts.
func checkCompose(v, c, n string) (msg string) {
	if !model.VendorOrClass(v) || !model.VendorOrClass(c) || !model.DeviceName(n) {
		return "generator bug: parts not valid"
	}
	err := catch(func() {
		s := parser.QualifiedName(v, c, n)
		if s != v+"/"+c+"="+n {
			msg = fmt.Sprintf("QualifiedName composed %q", s)
			return
		}
		gv, gc, gn, e := parser.ParseQualifiedName(s)
		if e != nil || gv != v || gc != c || gn != n {
			msg = fmt.Sprintf("compose/parse of (%q,%q,%q) gave (%q,%q,%q,%v)", v, c, n, gv, gc, gn, e)
		}
	})
	if err != nil {
		return err.Error()
	}
	return msg
}

func qnameNontrivial(s string) bool {
	// both separators present, '/' before '=' (validation of the parts is
	// actually reached), or the string is valid.
	sl, eq := strings.IndexByte(s, '/'), strings.IndexByte(s, '=')
	return sl > 0 && eq > sl+1 && eq < len(s)-1
}

func qnameLabels(s string) []string {
	_, _, _, ok := model.QualifiedName(s)
	l := []string{"invalid"}
	if ok {
		l[0] = "valid"
	}
	if qnameNontrivial(s) {
		l = append(l, "reaches-part-validation")
	}
	for i := 0; i < len(s); i++ {
		if s[i] >= 0x80 {
			l = append(l, "non-ascii")
			break
		}
	}
	return l
}

type hexCase struct {
	Hex  string `json:"hex"`
	Text string `json:"text"`
}

func hexOf(s string) hexCase { return hexCase{hex.EncodeToString([]byte(s)), fmt.Sprintf("%q", s)} }

func failQName(t testing.TB, rec *stats.Rec, s, msg string) {
	p := saveReplay("C07", "qname", hexOf(s))
	t.Fatalf("C07 violated on %q: %s\nreplay: %s", s, msg, p)
}

// TestC07Exhaustive enumerates every string up to a length bound over an
// alphabet holding one representative of every character class of the
// grammar, plus every byte value in every position of valid skeletons.
func TestC07Exhaustive(t *testing.T) {
	rec := stats.For("C07", "exhaustive")
	alphabet := []string{"a", "Z", "1", ".", "-", "_", ":", "/", "=", "é", " "}
	maxLen := envInt("VERIF_C07_MAXLEN", 5)
	idx, n := shard()
	var count int64
	var rec1 func(prefix string, depth int)
	rec1 = func(prefix string, depth int) {
		if count%int64(n) == int64(idx) {
			if msg := checkQName(prefix); msg != "" {
				failQName(t, rec, prefix, msg)
			}
			rec.Case(qnameNontrivial(prefix), prefix, func() any { return hexOf(prefix) }, qnameLabels(prefix)...)
		}
		count++
		if depth == maxLen {
			return
		}
		for _, a := range alphabet {
			rec1(prefix+a, depth+1)
		}
	}
	rec1("", 0)
	rec.Add("exhaustive_alphabet_strings", count)

	// every byte value in every position of valid skeletons
	skels := []string{"a/b=c", "ab/cd=ef", "a.b/c-d=e:f", "v/c=0"}
	for si, sk := range skels {
		if si%n != idx {
			continue
		}
		for pos := 0; pos < len(sk); pos++ {
			for b := 0; b < 256; b++ {
				s := sk[:pos] + string([]byte{byte(b)}) + sk[pos+1:]
				if msg := checkQName(s); msg != "" {
					failQName(t, rec, s, msg)
				}
				rec.Case(qnameNontrivial(s), s, func() any { return hexOf(s) }, append(qnameLabels(s), "skeleton-byte-sweep")...)
				// and inserted rather than substituted
				s2 := sk[:pos] + string([]byte{byte(b)}) + sk[pos:]
				if msg := checkQName(s2); msg != "" {
					failQName(t, rec, s2, msg)
				}
				rec.Case(qnameNontrivial(s2), s2, nil, append(qnameLabels(s2), "skeleton-byte-insert")...)
			}
		}
	}
	// runes that a Unicode-aware implementation would wrongly take for ASCII letters, digits or
	// separators (case folding to ASCII, unicode.IsLetter / IsDigit, full-width forms, look-alikes),
	// substituted and inserted at every position of the skeletons
	if idx == 0 {
		for _, sk := range skels {
			for pos := 0; pos <= len(sk); pos++ {
				for _, r := range unicodeLookalikes {
					ins := sk[:pos] + string(r) + sk[pos:]
					if msg := checkQName(ins); msg != "" {
						failQName(t, rec, ins, msg)
					}
					rec.Case(qnameNontrivial(ins), ins, func() any { return hexOf(ins) }, append(qnameLabels(ins), "unicode-lookalike")...)
					if pos < len(sk) {
						sub := sk[:pos] + string(r) + sk[pos+1:]
						if msg := checkQName(sub); msg != "" {
							failQName(t, rec, sub, msg)
						}
						rec.Case(qnameNontrivial(sub), sub, nil, append(qnameLabels(sub), "unicode-lookalike")...)
					}
				}
			}
		}
	}
	// long parts: the grammar sets no length limit, composing and parsing must still round-trip
	if idx == 0 {
		for _, L := range []int{63, 64, 100, 127, 128, 250, 254, 255, 256, 257, 300, 1000, 5000, 70000} {
			long := "x" + strings.Repeat("a", L-2) + "9"
			for _, parts := range [][3]string{{long, "c", "d"}, {"v", long, "d"}, {"v", "c", long}, {long, long, long}} {
				if msg := checkCompose(parts[0], parts[1], parts[2]); msg != "" {
					failQName(t, rec, parts[0]+"/"+parts[1]+"="+parts[2], clip(msg, 400))
				}
				s := parts[0] + "/" + parts[1] + "=" + parts[2]
				if msg := checkQName(s); msg != "" {
					failQName(t, rec, s, clip(msg, 400))
				}
				rec.Case(true, fmt.Sprintf("long-%d-%d-%d", len(parts[0]), len(parts[1]), len(parts[2])), nil, "valid", "long-parts")
			}
		}
	}
	// all valid part shapes of length 1..3 composed
	heads := []string{"a", "Z"}
	mids := []string{"", "a", "1", ".", "-", "_", "a.", "-1"}
	tails := []string{"", "a", "Z", "9"}
	var vcs, names []string
	for _, h := range heads {
		for _, m := range mids {
			for _, tl := range tails {
				s := h + m + tl
				if model.VendorOrClass(s) {
					vcs = append(vcs, s)
				}
			}
		}
	}
	for _, h := range []string{"a", "Z", "0"} {
		for _, m := range append(mids, ":", "a:", ":1") {
			for _, tl := range tails {
				s := h + m + tl
				if model.DeviceName(s) {
					names = append(names, s)
				}
			}
		}
	}
	for vi, v := range vcs {
		if vi%n != idx {
			continue
		}
		for _, c := range vcs {
			for _, nm := range names {
				if msg := checkCompose(v, c, nm); msg != "" {
					failQName(t, rec, v+"/"+c+"="+nm, msg)
				}
				s := v + "/" + c + "=" + nm
				rec.Case(true, s, nil, "valid", "composed")
			}
		}
	}
}

// unicodeLookalikes: K (Kelvin, lower-cases to k), I with dot above (lower-cases to i), long s and
// dotless i (upper-case to S / I), Angstrom, full-width a A 0 _ : / = . -, Cyrillic a, hyphen U+2010,
// one dot leader, fraction slash, soft hyphen, zero-width space, Arabic-Indic zero, superscript two,
// Roman numeral eight, feminine ordinal, micro sign, sharp s, no-break space.
var unicodeLookalikes = []rune{0x212A, 0x0130, 0x017F, 0x0131, 0x212B, 0xFF41, 0xFF21, 0xFF10, 0xFF3F, 0xFF1A, 0xFF0F, 0xFF1D, 0xFF0E, 0xFF0D,
	0x0430, 0x2010, 0x2024, 0x2044, 0x00AD, 0x200B, 0x0660, 0x00B2, 0x2167, 0x00AA, 0x00B5, 0x00DF, 0x00A0}

var (
	genVC = rapid.Custom(func(t *rapid.T) string {
		switch rapid.IntRange(0, 5).Draw(t, "vcShape") {
		case 0:
			return rapid.StringMatching(`[A-Za-z]`).Draw(t, "vc1")
		case 1:
			return rapid.StringMatching(`[A-Za-z][A-Za-z0-9]`).Draw(t, "vc2")
		case 2:
			return rapid.StringMatching(`[A-Za-z][A-Za-z0-9_.-]{58,61}[A-Za-z0-9]`).Draw(t, "vcLong")
		default:
			return rapid.StringMatching(`[A-Za-z]([A-Za-z0-9_.-]{0,6}[A-Za-z0-9])?`).Draw(t, "vc")
		}
	})
	genDevName = rapid.Custom(func(t *rapid.T) string {
		switch rapid.IntRange(0, 4).Draw(t, "dnShape") {
		case 0:
			return rapid.StringMatching(`[A-Za-z0-9]`).Draw(t, "dn1")
		case 1:
			return rapid.StringMatching(`[0-9][A-Za-z0-9_.:-]{0,4}[A-Za-z0-9]`).Draw(t, "dnDigit")
		default:
			return rapid.StringMatching(`[A-Za-z0-9]([A-Za-z0-9_.:-]{0,6}[A-Za-z0-9])?`).Draw(t, "dn")
		}
	})
)

// nearMiss derives a string one edit away from a valid qualified name.
func nearMiss(t *rapid.T, v, c, n string) string {
	bad := []string{"", " ", "/", "=", ":", "_", "-", ".", "é", "\x00", "\xff", "+", ",", "A", "0", "\u212a", "\u0130", "\u017f", "\uff41", "\u0660", "\u00b2", "\u2010"}
	parts := []string{v, c, n}
	k := rapid.IntRange(0, 2).Draw(t, "part")
	p := parts[k]
	ins := rapid.SampledFrom(bad).Draw(t, "bad")
	switch rapid.IntRange(0, 6).Draw(t, "edit") {
	case 0: // replace first
		p = ins + p[1:]
	case 1: // replace last
		p = p[:len(p)-1] + ins
	case 2: // insert in the middle
		i := rapid.IntRange(0, len(p)).Draw(t, "at")
		p = p[:i] + ins + p[i:]
	case 3: // empty part
		p = ""
	case 4: // prepend
		p = ins + p
	case 5: // append
		p = p + ins
	case 6: // one-letter part
		p = rapid.StringMatching(`[A-Za-z0-9_.:-]`).Draw(t, "one")
	}
	parts[k] = p
	seps := [][2]string{{"/", "="}, {"/", "="}, {"/", "="}, {"=", "/"}, {"", "="}, {"/", ""}, {"//", "="}, {"/", "=="}, {"/", "/"}, {"=", "="}}
	sp := rapid.SampledFrom(seps).Draw(t, "seps")
	return parts[0] + sp[0] + parts[1] + sp[1] + parts[2]
}

func propC07(rec *stats.Rec) func(t *rapid.T) {
	return func(t *rapid.T) {
		var s string
		kind := rapid.IntRange(0, 9).Draw(t, "kind")
		switch {
		case kind <= 2: // valid by construction
			v, c, n := genVC.Draw(t, "vendor"), genVC.Draw(t, "class"), genDevName.Draw(t, "name")
			if rapid.IntRange(0, 7).Draw(t, "longPart") == 0 {
				// the grammar sets no length limit
				long := "x" + strings.Repeat(rapid.SampledFrom([]string{"a", "a.", "-9", "_"}).Draw(t, "fill"), rapid.IntRange(60, 700).Draw(t, "fillN")) + "z"
				switch rapid.IntRange(0, 2).Draw(t, "longWhich") {
				case 0:
					v = long
				case 1:
					c = long
				default:
					n = long
				}
			}
			if msg := checkCompose(v, c, n); msg != "" {
				t.Fatalf("C07 compose: %s", msg)
			}
			s = v + "/" + c + "=" + n
		case kind <= 6:
			s = nearMiss(t, genVC.Draw(t, "vendor"), genVC.Draw(t, "class"), genDevName.Draw(t, "name"))
		case kind == 7:
			s = string(rapid.SliceOfN(rapid.Byte(), 0, 12).Draw(t, "bytes"))
		case kind == 8:
			s = rapid.StringOfN(rapid.RuneFrom([]rune("aZ09._-:/= é \U0001F600")), 0, 10, -1).Draw(t, "alpha")
		default:
			s = rapid.String().Draw(t, "any")
		}
		if msg := checkQName(s); msg != "" {
			t.Fatalf("C07 violated on %q (hex %x): %s", s, s, msg)
		}
		rec.Case(qnameNontrivial(s), s, func() any { return hexOf(s) }, append(qnameLabels(s), fmt.Sprintf("kind-%d", kind))...)
	}
}

func TestC07Rapid(t *testing.T) {
	rapid.Check(t, propC07(stats.For("C07", "rapid")))
}

func TestC07Regress(t *testing.T) {
	rec := stats.For("C07", "regress")
	for _, rc := range loadRegressions(t, "C07") {
		var hc hexCase
		if err := json.Unmarshal(rc.Case, &hc); err != nil {
			t.Fatalf("bad C07 regression case: %v", err)
		}
		b, err := hex.DecodeString(hc.Hex)
		if err != nil {
			t.Fatalf("bad C07 regression hex: %v", err)
		}
		s := string(b)
		if msg := checkQName(s); msg != "" {
			failQName(t, rec, s, msg+" ["+rc.Note+"]")
		}
		rec.Case(true, s, func() any { return hexOf(s) }, "regression")
	}
}

func FuzzC07(f *testing.F) {
	for _, s := range []string{"", "a/b=c", "vendor.com/class=dev0", "a/b=", "/b=c", "a=b/c", "a//b=c", "a/b==c", "é/b=c", "a/b=c:d", "a/b=_", "A.b-c_d/e=0:1"} {
		f.Add(s)
	}
	f.Fuzz(func(t *testing.T, s string) {
		if msg := checkQName(s); msg != "" {
			t.Fatalf("C07 violated on %q (hex %x): %s", s, s, msg)
		}
	})
}
