package props

import (
	"bytes"
	"encoding/hex"
	"encoding/json"
	"fmt"
	"os"
	"path/filepath"
	"strings"
	"testing"
	"time"

	oci "github.com/opencontainers/runtime-spec/specs-go"
	"pgregory.net/rapid"
	"tags.cncf.io/container-device-interface/pkg/cdi"
	"tags.cncf.io/container-device-interface/pkg/parser"
	"tags.cncf.io/container-device-interface/schema"
	specs "tags.cncf.io/container-device-interface/specs-go"
	"tags.cncf.io/container-device-interface/verifharness/gen"
	"tags.cncf.io/container-device-interface/verifharness/stats"
)

const c08GoodDoc = `{"cdiVersion":"0.3.0","kind":"good.vendor/cls","devices":[{"name":"ok","containerEdits":{"env":["GOOD=1"]}}]}`

type c08Env struct {
	dir string
	seq int
}

func newC08Env(t testing.TB) *c08Env {
	e := &c08Env{dir: t.TempDir()}
	return e
}

// withWatchdog runs f and reports a hang if it does not return in time.
func withWatchdog(what string, f func()) (msg string) {
	done := make(chan error, 1)
	go func() { done <- catch(f) }()
	select {
	case err := <-done:
		if err != nil {
			return what + ": " + err.Error()
		}
		return ""
	case <-time.After(20 * time.Second):
		// once more, alone, before calling it a hang
		done2 := make(chan error, 1)
		go func() { done2 <- catch(f) }()
		select {
		case err := <-done2:
			if err != nil {
				return what + ": " + err.Error()
			}
			return ""
		case <-time.After(20 * time.Second):
			return what + ": did not return within 20 s (twice)"
		}
	}
}

var c08OCIs = func() []*oci.Spec {
	uid := uint32(5)
	return []*oci.Spec{
		{},
		{Process: &oci.Process{}},
		{Linux: &oci.Linux{}},
		{Process: &oci.Process{User: oci.User{UID: 1000, GID: 1000}, Env: []string{"A=b"}}, Linux: &oci.Linux{Resources: &oci.LinuxResources{}, Devices: []oci.LinuxDevice{{Path: "/dev/x", Type: "c", UID: &uid}}},
			Hooks: &oci.Hooks{}, Mounts: []oci.Mount{{Destination: "/m"}}},
	}
}()

// exercise feeds one byte string, as the content of a Spec file with the
// given extension, to every entry point that consumes untrusted Spec data.
// It returns "" unless something panicked, hung, or a malformed file was not
// reported / affected another file.
func (e *c08Env) exercise(data []byte, ext string, extraOCI ...*oci.Spec) (msg string, info map[string]bool) {
	info = map[string]bool{}
	// (under the watchdog as well: if an earlier input left the validator lock held, this is where it shows)
	if m := withWatchdog("cdi.SetSpecValidator(nil) after the previous input", func() { cdi.SetSpecValidator(nil) }); m != "" {
		return m, info
	}
	schema.Set(schema.BuiltinSchema())
	e.seq++
	dir := filepath.Join(e.dir, fmt.Sprintf("x%d", e.seq%32))
	_ = os.RemoveAll(dir)
	_ = os.MkdirAll(dir, 0o755)
	defer os.RemoveAll(dir)
	p := filepath.Join(dir, "doc"+ext)
	good := filepath.Join(dir, "good.json")
	_ = os.WriteFile(p, data, 0o644)
	_ = os.WriteFile(good, []byte(c08GoodDoc), 0o644)
	var parsed *specs.Spec
	var loaded *cdi.Spec
	steps := []struct {
		what string
		f    func()
	}{
		{"ParseSpec", func() {
			s, err := cdi.ParseSpec(data)
			if err == nil && s != nil {
				parsed = s
				info["parses"] = true
			}
		}},
		{"ReadSpec", func() {
			s, err := cdi.ReadSpec(p, 0)
			if err == nil {
				if s == nil {
					msg = "ReadSpec returned nil, nil"
					return
				}
				loaded = s
				info["loads"] = true
			}
		}},
		{"cache refresh", func() {
			c, _ := cdi.NewCache(cdi.WithSpecDirs(dir), cdi.WithAutoRefresh(false))
			rerr := c.Refresh()
			errs := c.GetErrors()
			if loaded == nil {
				if _, ok := errs[p]; !ok || rerr == nil {
					msg = fmt.Sprintf("a file that does not load has no error entry (Refresh error: %v, entries: %v)", rerr, errs)
					return
				}
			}
			if len(errs[good]) != 0 && !(loaded != nil && strings.Contains(fmt.Sprint(errs[good]), "conflicting device")) {
				msg = fmt.Sprintf("the malformed file made the good file fail: %v", errs[good])
				return
			}
			if c.GetDevice("good.vendor/cls=ok") == nil && !(loaded != nil && loaded.Kind == "good.vendor/cls") {
				msg = "the device of the good file does not resolve next to the malformed file"
				return
			}
			for _, v := range c.ListVendors() {
				for _, s := range c.GetVendorSpecs(v) {
					_ = c.GetSpecErrors(s)
				}
			}
			_ = c.ListClasses()
			if loaded != nil {
				// injection of every loadable device, one by one and all together, into several OCI specs
				var all []string
				for _, d := range loaded.Devices {
					all = append(all, loaded.Kind+"="+d.Name)
				}
				for _, o := range append(append([]*oci.Spec{}, c08OCIs...), extraOCI...) {
					for _, q := range all {
						_, _ = c.InjectDevices(gen.CloneOCI(o), q)
						if dev := c.GetDevice(q); dev != nil {
							_ = dev.ApplyEdits(gen.CloneOCI(o))
							_ = dev.GetSpec().ApplyEdits(gen.CloneOCI(o))
						}
					}
					_, _ = c.InjectDevices(gen.CloneOCI(o), all...)
				}
				_, _ = c.InjectDevices(nil, all...)
				info["injects"] = true
			}
		}},
		{"schema validation", func() {
			_ = schema.ValidateData(data)
			_ = schema.ValidateReader(bytes.NewReader(data))
			_, _ = schema.ReadAndValidate(bytes.NewReader(data))
			_ = schema.ValidateFile(p)
			_ = schema.NopSchema().ValidateData(data)
			if parsed != nil {
				_ = schema.BuiltinSchema().Validate(parsed)
				_ = schema.ValidateType(parsed)
				_, _ = specs.MinimumRequiredVersion(parsed)
				_ = specs.ValidateVersion(parsed)
			}
		}},
		{"write back with the schema validator installed", func() {
			if parsed == nil {
				return
			}
			cdi.SetSpecValidator(schema.BuiltinSchema())
			defer cdi.SetSpecValidator(nil)
			c, _ := cdi.NewCache(cdi.WithSpecDirs(filepath.Join(dir, "out")), cdi.WithAutoRefresh(false))
			_ = c.WriteSpec(parsed, "w.json")
			_ = c.WriteSpec(parsed, "w.yaml")
			if name, err := cdi.GenerateNameForSpec(parsed); err == nil {
				_ = c.WriteSpec(parsed, name)
				_ = c.RemoveSpec(name)
			}
			_, _ = cdi.GenerateNameForTransientSpec(parsed, "id/../x")
		}},
	}
	for _, st := range steps {
		if m := withWatchdog(st.what, st.f); m != "" {
			return m, info
		}
		if msg != "" {
			return st.what + ": " + msg, info
		}
	}
	return "", info
}

// exerciseStrings feeds strings to the entry points that take device names,
// annotation maps and name parts.
func exerciseStrings(ss []string) string {
	return withWatchdog("string entry points", func() {
		for _, s := range ss {
			_, _, _, _ = parser.ParseQualifiedName(s)
			_ = parser.IsQualifiedName(s)
			_, _, _ = parser.ParseDevice(s)
			_, _ = parser.ParseQualifier(s)
			_ = parser.ValidateVendorName(s)
			_ = parser.ValidateClassName(s)
			_ = parser.ValidateDeviceName(s)
			_ = cdi.ValidateEnv([]string{s})
			_ = cdi.ValidateIntelRdt(&specs.IntelRdt{ClosID: s})
			_ = cdi.GenerateTransientSpecName(s, s, s)
		}
		m := map[string]string{}
		for i, s := range ss {
			m[s] = ss[(i+1)%len(ss)]
			m["cdi.k8s.io/"+s] = ss[(i+1)%len(ss)]
		}
		_, _, _ = cdi.ParseAnnotations(m)
		_, _, _ = cdi.ParseAnnotations(nil)
		for i, s := range ss {
			o := ss[(i+1)%len(ss)]
			_, _ = cdi.AnnotationKey(s, o)
			_, _ = cdi.AnnotationValue(ss)
			_, _ = cdi.UpdateAnnotations(m, s, o, ss)
			_, _ = cdi.UpdateAnnotations(nil, s, o, []string{o})
		}
		c, _ := cdi.NewCache(cdi.WithSpecDirs(), cdi.WithAutoRefresh(false))
		_, _ = c.InjectDevices(&oci.Spec{}, ss...)
		for _, s := range ss {
			_ = c.GetDevice(s)
			_ = c.GetVendorSpecs(s)
		}
	})
}

// ---------------------------------------------------------------- generators

var c08Tokens = []string{"null", "~", "[null]", "{}", "[]", "[[]]", "- ", "-\n", ": ", "? ", "&a ", "*a", "<<: *a", "!!binary ", "!!float ", "!!str ", "!!map ", "!!seq ", "!<tag:x> ",
	"1e999999", "-1e999999", "0x7fffffffffffffffffff", "9223372036854775808", "-9223372036854775809", ".inf", ".nan", "\x00", "\xff\xfe", "\xef\xbb\xbf", "\xc3", "\xe2\x82", "\xf0\x9f\x98",
	"\t", "\r\n", "\n---\n", "\n...\n", "%YAML 1.1\n---\n", "|\n ", ">\n ", "|+\n", "'", "\"", "\\u0000", "\\ud800", "\\x", "#", "{", "}", "[", "]", ",", ":", "::", "- - - - ", "? - : ",
	"\"cdiVersion\"", "\"devices\"", "containerEdits", "deviceNodes:\n- null\n", "hooks: [null]", "mounts: [~]", "annotations: {? [a] : b}", "kind: a/b", "kind: /", "name: ''",
	"additionalGids: [-1]", "timeout: 1e3", "fileMode: 0o777", "major: 0x10", "enableCMT: yes", "env: [A]", "env: [=]", "path: [x]", "intelRdt: ~", "closID: ..", "devices: [~]"}

func genC08Doc(t *rapid.T) (data []byte, ext string, kind string) {
	ext = rapid.SampledFrom([]string{".json", ".yaml"}).Draw(t, "ext")
	switch k := rapid.IntRange(0, 9).Draw(t, "docKind"); {
	case k == 0:
		return rapid.SliceOfN(rapid.Byte(), 0, 200).Draw(t, "bytes"), ext, "random-bytes"
	case k == 1:
		return []byte(rapid.String().Draw(t, "text")), ext, "random-text"
	case k == 2:
		// tokens only
		var sb strings.Builder
		for i, n := 0, rapid.IntRange(1, 12).Draw(t, "nTok"); i < n; i++ {
			sb.WriteString(rapid.SampledFrom(c08Tokens).Draw(t, fmt.Sprintf("tok%d", i)))
			sb.WriteString(rapid.SampledFrom([]string{"", " ", "\n", "\n  ", ": ", ", "}).Draw(t, fmt.Sprintf("sep%d", i)))
		}
		return []byte(sb.String()), ext, "token-soup"
	case k == 3:
		// deep nesting
		n := rapid.SampledFrom([]int{10, 100, 1000, 10001, 20000}).Draw(t, "depth")
		open, clos := rapid.SampledFrom([][2]string{{"[", "]"}, {"{\"a\":", "}"}, {"- ", ""}, {"? ", ""}, {"a:\n ", ""}}).Draw(t, "nest")[0], ""
		if open == "[" {
			clos = "]"
		} else if open == "{\"a\":" {
			clos = "}"
		}
		return []byte(strings.Repeat(open, n) + "1" + strings.Repeat(clos, n)), ext, "deep-nesting"
	case k == 5:
		// a document from the schema-validation domain (C17): type / bound / annotation mutants of a valid Spec
		c := genC17(t)
		if ext == ".json" {
			return gen.EncodeJSON(c.Doc), ext, "schema-mutant"
		}
		return gen.EncodeYAML(c.Doc), ext, "schema-mutant"
	case k == 4:
		// alias expansion
		var sb strings.Builder
		sb.WriteString("a0: &a0 [x,x,x,x,x,x,x,x,x]\n")
		for i, n := 1, rapid.IntRange(2, 12).Draw(t, "levels"); i < n; i++ {
			fmt.Fprintf(&sb, "a%d: &a%d [*a%d,*a%d,*a%d,*a%d,*a%d,*a%d,*a%d,*a%d,*a%d]\n", i, i, i-1, i-1, i-1, i-1, i-1, i-1, i-1, i-1, i-1)
		}
		sb.WriteString("cdiVersion: \"0.3.0\"\nkind: v.com/c\ndevices: []\n")
		return []byte(sb.String()), ".yaml", "alias-bomb"
	default:
		// structure-aware: a valid document, mutated as a tree and / or as text
		s := gen.Spec(t, "s", gen.SpecOpts{MaxDevices: 3, Edit: gen.EditOpts{MaxPer: 2, Hostile: rapid.IntRange(0, 3).Draw(t, "hostile") == 0}})
		var doc any = gen.ToTree(s)
		kind = "valid"
		for i, n := 0, rapid.SampledFrom([]int{0, 1, 1, 2, 4}).Draw(t, "treeMutations"); i < n; i++ {
			var paths []treePath
			var vals []any
			walkTree(doc, nil, func(p treePath, v any) { paths = append(paths, p); vals = append(vals, v) })
			idx := rapid.IntRange(0, len(paths)-1).Draw(t, fmt.Sprintf("node%d", i))
			if len(paths[idx]) == 0 {
				continue
			}
			doc = setAt(doc, paths[idx], c17Replacement(t, fmt.Sprintf("tm%d", i), vals[idx]), false)
			kind = "tree-mutated"
		}
		if ext == ".json" || rapid.Bool().Draw(t, "jsonText") {
			data = gen.EncodeJSON(doc)
		} else {
			data = gen.EncodeYAML(doc)
		}
		for i, n := 0, rapid.SampledFrom([]int{0, 0, 1, 2, 5}).Draw(t, "textMutations"); i < n && len(data) > 0; i++ {
			at := rapid.IntRange(0, len(data)).Draw(t, fmt.Sprintf("at%d", i))
			switch rapid.IntRange(0, 4).Draw(t, fmt.Sprintf("tk%d", i)) {
			case 0: // insert a token
				tok := rapid.SampledFrom(c08Tokens).Draw(t, fmt.Sprintf("ins%d", i))
				data = append(append(append([]byte{}, data[:at]...), tok...), data[at:]...)
			case 1: // delete a range
				end := min(len(data), at+rapid.IntRange(1, 20).Draw(t, fmt.Sprintf("del%d", i)))
				data = append(append([]byte{}, data[:at]...), data[end:]...)
			case 2: // truncate
				data = data[:at]
			case 3: // duplicate a range
				end := min(len(data), at+rapid.IntRange(1, 40).Draw(t, fmt.Sprintf("dup%d", i)))
				data = append(append(append([]byte{}, data[:end]...), data[at:end]...), data[end:]...)
			case 4: // overwrite one byte
				if at < len(data) {
					data = append([]byte{}, data...)
					data[at] = rapid.Byte().Draw(t, fmt.Sprintf("byte%d", i))
				}
			}
			kind = "text-mutated"
		}
		return data, ext, kind
	}
}

func TestC08Rapid(t *testing.T) {
	rec := stats.For("C08", "rapid")
	env := newC08Env(t)
	defer func() { go cdi.SetSpecValidator(nil) }() // never wait for it: a leaked lock must not wedge the test's exit
	rapid.Check(t, func(t *rapid.T) {
		data, ext, kind := genC08Doc(t)
		if len(data) > 64*1024 {
			data = data[:64*1024]
		}
		// OCI specs for the injection part: a well-formed one and one with stacked mounts, repeated paths, odd entries
		ocis := []*oci.Spec{gen.OCISpec(t, "oci", gen.OCIOpts{}), gen.OCISpecHostile(t, "hoci")}
		t0 := time.Now()
		msg, info := env.exercise(data, ext, ocis...)
		rec.Add("ms:"+kind, time.Since(t0).Milliseconds())
		rec.Add("n:"+kind, 1)
		if msg != "" {
			t.Fatalf("C08 violated: %s\nfile extension %s, content (hex): %s\ncontent: %q", msg, ext, hex.EncodeToString(data[:min(len(data), 2000)]), clip(string(data), 2000))
		}
		labels := []string{"doc:" + kind, "ext:" + ext}
		nontriv := false
		for k, v := range info {
			if v {
				labels = append(labels, k)
			}
		}
		// non-trivial: the input gets past tokenisation (it reaches unmarshalling or validation)
		// (alias bombs and deep nestings are well-formed by construction; decoding them here would only test yaml.v3)
		if kind == "alias-bomb" || kind == "deep-nesting" || json.Valid(data) || (len(data) < 8192 && yamlTokenises(data)) {
			nontriv = true
			labels = append(labels, "tokenises")
			if !info["loads"] {
				labels = append(labels, "tokenises-but-invalid")
			}
		}
		rec.Case(nontriv, string(data)+ext, func() any { return map[string]string{"ext": ext, "kind": kind, "content": clip(string(data), 1500)} }, labels...)
	})
}

func TestC08Strings(t *testing.T) {
	rec := stats.For("C08", "strings")
	rapid.Check(t, func(t *rapid.T) {
		n := rapid.IntRange(1, 5).Draw(t, "n")
		var ss []string
		for i := 0; i < n; i++ {
			switch rapid.IntRange(0, 4).Draw(t, fmt.Sprintf("k%d", i)) {
			case 0:
				ss = append(ss, string(rapid.SliceOfN(rapid.Byte(), 0, 70).Draw(t, fmt.Sprintf("b%d", i))))
			case 1:
				ss = append(ss, rapid.SampledFrom([]string{"", "a", "a/b", "a/b=c", "/", "=", "a/=", "/b=c", "a=b", "a/b=", "cdi.k8s.io/", "cdi.k8s.io/x", ",", "a/b=c,d/e=f", "a/b=c,", strings.Repeat("a", 64), strings.Repeat("a/", 40)}).Draw(t, fmt.Sprintf("s%d", i)))
			case 2:
				ss = append(ss, nearMiss(t, genVC.Draw(t, "v"), genVC.Draw(t, "c"), genDevName.Draw(t, "n")))
			default:
				ss = append(ss, gen.HostileString().Draw(t, fmt.Sprintf("h%d", i)))
			}
		}
		if msg := exerciseStrings(ss); msg != "" {
			t.Fatalf("C08 violated: %s\nstrings: %q", msg, ss)
		}
		nontriv := false
		for _, s := range ss {
			if strings.Contains(s, "/") && strings.Contains(s, "=") {
				nontriv = true
			}
		}
		rec.Case(nontriv, strings.Join(ss, "\x00"), func() any { return ss }, fmt.Sprintf("strings-%d", n))
	})
}

func yamlTokenises(data []byte) bool {
	var v any
	return yamlUnmarshal(data, &v) == nil
}

// TestC08Watcher: the background refresh goroutine survives malformed files.
func TestC08Watcher(t *testing.T) {
	rec := stats.For("C08", "watcher")
	dir := filepath.Join(t.TempDir(), "watched")
	stage := filepath.Join(t.TempDir(), "stage")
	_ = os.MkdirAll(dir, 0o755)
	_ = os.MkdirAll(stage, 0o755)
	waitForInotify()
	cache, _ := cdi.NewCache(cdi.WithSpecDirs(dir), cdi.WithAutoRefresh(true))
	defer cache.Configure(cdi.WithAutoRefresh(false))
	undecidedIfNoInotify(t, cache)
	cur := filepath.Join(os.Getenv("VERIF_REPLAY_DIR"), fmt.Sprintf("C08-current-%d.json", os.Getpid()))
	seq := 0
	rapid.Check(t, func(t *rapid.T) {
		seq++
		data, ext, kind := genC08Doc(t)
		if len(data) > 64*1024 {
			data = data[:64*1024]
		}
		if os.Getenv("VERIF_REPLAY_DIR") != "" {
			// a panic in the watcher goroutine ends the process: leave the input where the driver finds it
			b, _ := json.Marshal(map[string]any{"prop": "C08", "kind": "doc", "case": map[string]string{"ext": ext, "hex": hex.EncodeToString(data)}})
			_ = os.WriteFile(cur, b, 0o644)
			fmt.Printf("current input: %s\n", cur)
		}
		put := func(name string, content []byte) {
			tmp := filepath.Join(stage, "f")
			_ = os.WriteFile(tmp, content, 0o644)
			_ = os.Rename(tmp, filepath.Join(dir, name))
		}
		put("bad"+ext, data)
		if rapid.Bool().Draw(t, "pause") {
			time.Sleep(time.Millisecond)
		}
		dev := fmt.Sprintf("ok%d", seq)
		put("good.json", []byte(strings.Replace(c08GoodDoc, `"ok"`, `"`+dev+`"`, 1)))
		deadline := time.Now().Add(10 * time.Second)
		for cache.GetDevice("good.vendor/cls="+dev) == nil {
			if time.Now().After(deadline) {
				t.Fatalf("C08 violated: after a malformed file was dropped into the watched directory the cache no longer follows changes (the known-good file written afterwards never resolved)\nmalformed file %s: %q", "bad"+ext, clip(string(data), 1500))
			}
			time.Sleep(time.Millisecond)
		}
		_ = os.Remove(filepath.Join(dir, "bad"+ext))
		rec.Case(true, string(data)+ext, func() any { return map[string]string{"ext": ext, "kind": kind, "content": clip(string(data), 800)} }, "doc:"+kind, "ext:"+ext)
	})
	_ = os.Remove(cur)
}

func TestC08Regress(t *testing.T) {
	rec := stats.For("C08", "regress")
	env := newC08Env(t)
	defer func() { go cdi.SetSpecValidator(nil) }()
	for _, rc := range loadRegressions(t, "C08") {
		var c struct {
			Ext     string   `json:"ext"`
			Hex     string   `json:"hex"`
			Text    string   `json:"text"`
			Strings []string `json:"strings"`
		}
		if err := json.Unmarshal(rc.Case, &c); err != nil {
			t.Fatalf("bad C08 regression: %v", err)
		}
		if len(c.Strings) > 0 {
			if msg := exerciseStrings(c.Strings); msg != "" {
				t.Fatalf("C08 violated on regression [%s]: %s", rc.Note, msg)
			}
			rec.Case(true, strings.Join(c.Strings, "\x00"), func() any { return c.Strings }, "regression")
			continue
		}
		data := []byte(c.Text)
		if c.Hex != "" {
			data, _ = hex.DecodeString(c.Hex)
		}
		for _, ext := range []string{c.Ext} {
			if msg, _ := env.exercise(data, ext); msg != "" {
				p := saveReplay("C08", "doc", map[string]string{"ext": ext, "hex": hex.EncodeToString(data)})
				t.Fatalf("C08 violated on regression [%s]: %s\nreplay: %s", rc.Note, msg, p)
			}
		}
		rec.Case(true, string(data)+c.Ext, func() any { return c }, "regression")
	}
}

// ---------------------------------------------------------------- native fuzz targets (thorough tier)

func FuzzC08Spec(f *testing.F) {
	for _, s := range []string{c08GoodDoc, "cdiVersion: \"0.6.0\"\nkind: v.com/c\nannotations: {a: b}\ndevices:\n- name: d\n  containerEdits:\n    deviceNodes:\n    - path: /dev/x\n      type: c\n      major: 1\n    hooks:\n    - hookName: prestart\n      path: /bin/h\n    mounts:\n    - hostPath: /h\n      containerPath: /c\n    intelRdt: {closID: x}\n    additionalGids: [1]\n",
		`{"cdiVersion":"0.3.0","kind":"a/b","devices":[{"name":"d","containerEdits":{"deviceNodes":[null]}}]}`, "kind: a/b", "devices: [~]", "- - - -", "&a [*a]", "{", ""} {
		f.Add([]byte(s), true)
		f.Add([]byte(s), false)
	}
	for _, tok := range c08Tokens {
		f.Add([]byte(tok), true)
	}
	env := newC08Env(f)
	rec := stats.For("C08", "fuzz-spec")
	f.Fuzz(func(t *testing.T, data []byte, yaml bool) {
		if len(data) > 64*1024 {
			return
		}
		ext := ".json"
		if yaml {
			ext = ".yaml"
		}
		msg, info := env.exercise(data, ext)
		if msg != "" {
			t.Fatalf("C08 violated: %s\ncontent: %q", msg, clip(string(data), 2000))
		}
		rec.Case(info["parses"], string(data)+ext, nil, "fuzz")
	})
}

func FuzzC08Strings(f *testing.F) {
	for _, s := range []string{"a/b=c", "", "cdi.k8s.io/x_y", "v.com/c=d,v.com/c=e", "a", "/", "=", strings.Repeat("a", 64)} {
		f.Add(s, s)
	}
	rec := stats.For("C08", "fuzz-strings")
	f.Fuzz(func(t *testing.T, a, b string) {
		if msg := exerciseStrings([]string{a, b}); msg != "" {
			t.Fatalf("C08 violated: %s\nstrings: %q %q", msg, a, b)
		}
		rec.Case(strings.Contains(a, "/"), a+"\x00"+b, nil, "fuzz")
	})
}
