package props

import (
	"encoding/json"
	"fmt"
	"os"
	"path/filepath"
	"sort"
	"strings"
	"sync"
	"testing"
	"unicode/utf8"

	"pgregory.net/rapid"
	"tags.cncf.io/container-device-interface/pkg/cdi"
	specs "tags.cncf.io/container-device-interface/specs-go"
	"tags.cncf.io/container-device-interface/verifharness/gen"
	"tags.cncf.io/container-device-interface/verifharness/model"
	"tags.cncf.io/container-device-interface/verifharness/stats"
)

type c09Env struct {
	base string
	seq  int
}

// specImage is the canonical image of a Spec: its JSON encoding (omitempty
// makes nil and empty lists/maps equal; list order is preserved).
// specImage is the JSON image of an in-memory Spec used wherever two Specs are compared field by field. It is
// produced by the harness's own serialiser (model.SpecTree, written from the specification) and not by marshalling
// with the struct tags of the code under test: a member that the code silently fails to persist shows as a difference.
func specImage(s *specs.Spec) string {
	b, err := json.Marshal(model.SpecTree(s))
	if err != nil {
		return "MARSHAL-ERROR: " + err.Error()
	}
	return string(b)
}

func firstDiff(a, b string) string {
	i := 0
	for i < len(a) && i < len(b) && a[i] == b[i] {
		i++
	}
	lo := i - 60
	if lo < 0 {
		lo = 0
	}
	ha, hb := i+60, i+60
	if ha > len(a) {
		ha = len(a)
	}
	if hb > len(b) {
		hb = len(b)
	}
	return fmt.Sprintf("at byte %d: want ...%q... got ...%q...", i, a[lo:ha], b[lo:hb])
}

// check writes spec under three names and reads everything back.
// rejected=true means WriteSpec refused the Spec (not a C09 case).
func (env *c09Env) check(s *specs.Spec) (msg string, rejected bool) {
	env.seq++
	dir := filepath.Join(env.base, fmt.Sprintf("w%d", env.seq%64))
	_ = os.RemoveAll(dir)
	defer os.RemoveAll(dir)
	want := specImage(s)
	err := catch(func() {
		cache, _ := cdi.NewCache(cdi.WithSpecDirs(dir), cdi.WithAutoRefresh(false))
		names := []struct{ name, file string }{{"one.json", "one.json"}, {"two.yaml", "two.yaml"}, {"three", "three.yaml"}}
		images := map[string]string{}
		for _, n := range names {
			if e := cache.WriteSpec(s, n.name); e != nil {
				rejected = true
				return
			}
			if specImage(s) != want {
				msg = "WriteSpec modified the Spec it was given"
				return
			}
			p := filepath.Join(dir, n.file)
			data, e := os.ReadFile(p)
			if e != nil {
				msg = fmt.Sprintf("WriteSpec(%q) succeeded but %s does not exist: %v", n.name, n.file, e)
				return
			}
			rs, e := cdi.ReadSpec(p, 0)
			if e != nil {
				msg = fmt.Sprintf("file written for %q cannot be read back: %v\nfile content: %s", n.name, e, clip(string(data), 1500))
				return
			}
			got := specImage(rs.Spec)
			if got != want {
				msg = fmt.Sprintf("file written for %q reads back different: %s\nfile content: %s", n.name, firstDiff(want, got), clip(string(data), 1500))
				return
			}
			images[n.file] = got
			// encoding follows the name
			isJSON := len(data) > 0 && data[0] == '{'
			if strings.HasSuffix(n.file, ".json") != isJSON && strings.HasSuffix(n.file, ".json") {
				msg = fmt.Sprintf("%s is not JSON", n.file)
				return
			}
		}
		if images["one.json"] != images["two.yaml"] {
			msg = "the JSON and the YAML file load to different Specs"
			return
		}
		// through the cache: one file at a time (three files would conflict)
		_ = os.Remove(filepath.Join(dir, "two.yaml"))
		_ = os.Remove(filepath.Join(dir, "three.yaml"))
		for _, keep := range []string{"one.json", "two.yaml"} {
			if keep == "two.yaml" {
				_ = os.Remove(filepath.Join(dir, "one.json"))
				if e := cache.WriteSpec(s, "two.yaml"); e != nil {
					msg = fmt.Sprintf("second WriteSpec of the same Spec failed: %v", e)
					return
				}
			}
			if e := cache.Refresh(); e != nil {
				msg = fmt.Sprintf("cache refresh over the written %s reports: %v", keep, e)
				return
			}
			var wantDevs []string
			byName := map[string]specs.Device{}
			for _, d := range s.Devices {
				q := s.Kind + "=" + d.Name
				wantDevs = append(wantDevs, q)
				byName[q] = d
			}
			sort.Strings(wantDevs)
			gotDevs := cache.ListDevices()
			if strings.Join(gotDevs, "\x00") != strings.Join(wantDevs, "\x00") {
				msg = fmt.Sprintf("cache over %s lists %q, want %q", keep, gotDevs, wantDevs)
				return
			}
			seenSpec := map[*specs.Spec]bool{} // the devices of one file share one Spec object: its image is compared once
			for q, d := range byName {
				cd := cache.GetDevice(q)
				if cd == nil {
					msg = fmt.Sprintf("cache over %s does not resolve %q", keep, q)
					return
				}
				a, _ := json.Marshal(d)
				b, _ := json.Marshal(cd.Device)
				if string(a) != string(b) {
					msg = fmt.Sprintf("cache over %s: device %q differs: %s", keep, q, firstDiff(string(a), string(b)))
					return
				}
				if sp := cd.GetSpec().Spec; !seenSpec[sp] {
					seenSpec[sp] = true
					if specImage(sp) != want {
						msg = fmt.Sprintf("cache over %s: Spec of %q differs from the one written", keep, q)
						return
					}
				}
			}
		}
	})
	if err != nil {
		return err.Error(), false
	}
	return msg, rejected
}

// specStrings visits every string of a Spec.
func specStrings(s *specs.Spec, f func(string)) {
	f(s.Kind)
	for k, v := range s.Annotations {
		f(k)
		f(v)
	}
	edits := func(e *specs.ContainerEdits) {
		for _, x := range e.Env {
			f(x)
		}
		for _, d := range e.DeviceNodes {
			f(d.Path)
			f(d.HostPath)
			f(d.Permissions)
		}
		for _, h := range e.Hooks {
			f(h.Path)
			for _, x := range h.Args {
				f(x)
			}
			for _, x := range h.Env {
				f(x)
			}
		}
		for _, m := range e.Mounts {
			f(m.HostPath)
			f(m.ContainerPath)
			f(m.Type)
			for _, x := range m.Options {
				f(x)
			}
		}
		if e.IntelRdt != nil {
			f(e.IntelRdt.ClosID)
			f(e.IntelRdt.L3CacheSchema)
			f(e.IntelRdt.MemBwSchema)
		}
	}
	edits(&s.ContainerEdits)
	for i := range s.Devices {
		f(s.Devices[i].Name)
		for k, v := range s.Devices[i].Annotations {
			f(k)
			f(v)
		}
		edits(&s.Devices[i].ContainerEdits)
	}
}

// stringClasses labels the hostile classes present in a Spec.
func stringClasses(s *specs.Spec) (labels []string, hostile bool) {
	set := map[string]bool{}
	specStrings(s, func(x string) {
		if !gen.IsPlain(x) {
			hostile = true
		}
		if !utf8.ValidString(x) {
			set["str:invalid-utf8"] = true
		}
		for _, r := range x {
			switch {
			case r == '\n' || r == '\r':
				set["str:line-break"] = true
			case r == '\t':
				set["str:tab"] = true
			case r < 0x20:
				set["str:c0-control"] = true
			case r == 0x7f || (r >= 0x80 && r <= 0x9f):
				set["str:del-or-c1"] = true
			case r == 0x2028 || r == 0x2029 || r == 0xa0 || r == 0xfeff:
				set["str:unicode-space-or-bom"] = true
			case r == 0xfffe || r == 0xffff || r == 0xfffd:
				set["str:nonchar"] = true
			case r > 0xffff:
				set["str:non-bmp"] = true
			case r > 0x7f:
				set["str:non-ascii"] = true
			case strings.ContainsRune("#:-?,[]{}&*!|>'\"%@`\\", r):
				set["str:yaml-indicator"] = true
			}
		}
		if x != strings.TrimSpace(x) {
			set["str:leading-or-trailing-blank"] = true
		}
		switch strings.ToLower(x) {
		case "yes", "no", "true", "false", "null", "~", "on", "off", "y", "n":
			set["str:yaml-keyword"] = true
		}
	})
	for k := range set {
		labels = append(labels, k)
	}
	sort.Strings(labels)
	return labels, hostile
}

func propC09(rec *stats.Rec, env *c09Env, exclude func(*specs.Spec) string) func(t *rapid.T) {
	return func(t *rapid.T) {
		hostile := rapid.IntRange(0, 7).Draw(t, "hostileStrings") != 0
		s := gen.Spec(t, "s", gen.SpecOpts{Edit: gen.EditOpts{Hostile: hostile}, MaxDevices: 3})
		if len(s.Devices) > 0 && rapid.IntRange(0, 15).Draw(t, "onlyEmptyLists") == 0 {
			// a device whose edits are present-but-empty lists only: nothing of it reaches the file, so it must be
			// refused for writing like a device without edits - or read back
			i := rapid.IntRange(0, len(s.Devices)-1).Draw(t, "emptyListsIn")
			s.Devices[i].ContainerEdits = specs.ContainerEdits{}
			switch rapid.IntRange(0, 4).Draw(t, "emptyListKind") {
			case 0:
				s.Devices[i].ContainerEdits.AdditionalGIDs = []uint32{}
			case 1:
				s.Devices[i].ContainerEdits.Env = []string{}
			case 2:
				s.Devices[i].ContainerEdits.Mounts = []*specs.Mount{}
			case 3:
				s.Devices[i].ContainerEdits.Hooks = []*specs.Hook{}
			default:
				s.Devices[i].ContainerEdits.DeviceNodes = []*specs.DeviceNode{}
			}
			rec.Label("device-with-empty-lists-only")
		}
		if exclude != nil {
			if why := exclude(s); why != "" {
				rec.Excluded(why)
				return
			}
		}
		msg, rejected := env.check(s)
		if rejected {
			rec.Label("rejected-for-writing")
			return
		}
		if msg != "" {
			t.Fatalf("C09 violated: %s\nSpec: %s", msg, clip(specImage(s), 3000))
		}
		labels, isHostile := stringClasses(s)
		nontriv := isHostile || strings.Contains(specImage(s), "9223372036854775807") || strings.Contains(specImage(s), "4294967295") || strings.Contains(specImage(s), "-9223372036854775808")
		rec.Case(nontriv, specImage(s), func() any { return json.RawMessage(specImage(s)) }, append(labels, "written")...)
	}
}

func TestC09Rapid(t *testing.T) {
	rapid.Check(t, propC09(stats.For("C09", "rapid"), &c09Env{base: t.TempDir()}, nil))
}

func TestC09Regress(t *testing.T) {
	rec := stats.For("C09", "regress")
	env := &c09Env{base: t.TempDir()}
	for _, rc := range loadRegressions(t, "C09") {
		var s specs.Spec
		if err := json.Unmarshal(rc.Case, &s); err != nil {
			t.Fatalf("bad C09 regression: %v", err)
		}
		msg, rejected := env.check(&s)
		if rejected {
			t.Fatalf("C09 regression [%s]: Spec is refused for writing", rc.Note)
		}
		if msg != "" {
			p := saveReplay("C09", "spec", json.RawMessage(specImage(&s)))
			t.Fatalf("C09 violated on regression [%s]: %s\nreplay: %s", rc.Note, msg, p)
		}
		rec.Case(true, specImage(&s), func() any { return json.RawMessage(specImage(&s)) }, "regression")
	}
}

// TestC09Dictionary writes one Spec per dictionary string, placing the
// string in every free string field at once.
func TestC09Dictionary(t *testing.T) {
	rec := stats.For("C09", "dictionary")
	env := &c09Env{base: t.TempDir()}
	idx, n := shard()
	for i, w := range gen.Hostile {
		if i%n != idx {
			continue
		}
		for _, wrap := range []string{"%s", "x%s", "%sx", "x %s x", "%s\n%s"} {
			v := strings.ReplaceAll(wrap, "%s", w)
			ne := v
			if ne == "" {
				ne = "x"
			}
			to := 7
			s := &specs.Spec{Version: "0.7.0", Kind: "vendor.com/class", Annotations: map[string]string{"key": v},
				Devices: []specs.Device{{Name: "dev", Annotations: map[string]string{"k": v}, ContainerEdits: specs.ContainerEdits{
					Env:         []string{"A=" + v, "B" + strings.ReplaceAll(strings.ReplaceAll(ne, "=", "_"), "\x00", "_") + "=1"},
					DeviceNodes: []*specs.DeviceNode{{Path: ne, HostPath: v, Type: "c", Major: 1}},
					Hooks:       []*specs.Hook{{HookName: "prestart", Path: ne, Args: []string{v, v}, Env: []string{"H=" + v}, Timeout: &to}},
					Mounts:      []*specs.Mount{{HostPath: ne, ContainerPath: ne, Options: []string{v}, Type: v}},
					IntelRdt:    &specs.IntelRdt{ClosID: "clos", L3CacheSchema: v, MemBwSchema: v},
				}}},
				ContainerEdits: specs.ContainerEdits{Env: []string{"S=" + v}},
			}
			msg, rejected := env.check(s)
			if rejected {
				rec.Label("rejected-for-writing")
				continue
			}
			if msg != "" {
				p := saveReplay("C09", "spec", json.RawMessage(specImage(s)))
				t.Fatalf("C09 violated for dictionary string %q (pattern %q): %s\nreplay: %s", w, wrap, msg, p)
			}
			labels, _ := stringClasses(s)
			rec.Case(true, specImage(s), func() any { return json.RawMessage(specImage(s)) }, append(labels, "written", "dictionary")...)
		}
	}
}

// TestC09Concurrent: the round trip must also hold for every writer when several
// goroutines write different Specs at the same time (each into its own
// directory through its own cache: nothing is shared but the library's
// package-level state). Race-detector build.
func TestC09Concurrent(t *testing.T) {
	rec := stats.For("C09", "concurrent")
	base := t.TempDir()
	caseSeq := 0
	rapid.Check(t, func(t *rapid.T) {
		caseSeq++
		n := rapid.IntRange(2, 6).Draw(t, "writers")
		rounds := rapid.IntRange(3, 20).Draw(t, "rounds")
		var specsToWrite []*specs.Spec
		for i := 0; i < n; i++ {
			specsToWrite = append(specsToWrite, gen.Spec(t, fmt.Sprintf("w%d", i), gen.SpecOpts{Edit: gen.EditOpts{Hostile: rapid.Bool().Draw(t, fmt.Sprintf("hostile%d", i)), MaxPer: 2}, MaxDevices: 2}))
		}
		msgs := make([]string, n)
		var wg sync.WaitGroup
		for i := 0; i < n; i++ {
			wg.Add(1)
			go func(i int) {
				defer wg.Done()
				env := &c09Env{base: filepath.Join(base, fmt.Sprintf("c%d-w%d", caseSeq, i))}
				for r := 0; r < rounds && msgs[i] == ""; r++ {
					msg, rejected := env.check(specsToWrite[i])
					if rejected {
						return
					}
					msgs[i] = msg
				}
			}(i)
		}
		wg.Wait()
		for i, msg := range msgs {
			if msg != "" {
				t.Fatalf("C09 violated with %d concurrent writers (writer %d): %s\nSpec: %s", n, i, msg, clip(specImage(specsToWrite[i]), 3000))
			}
		}
		// two of the writers now publish under ONE name in ONE directory, several times: whichever comes last, the
		// file must read back as exactly one of the two Specs (each write is accepted, so each would read back alone)
		shared := filepath.Join(base, fmt.Sprintf("c%d-shared", caseSeq))
		for _, ext := range []string{".yaml", ".json"} {
			name := "shared" + ext
			okA, okB := true, true
			var wg2 sync.WaitGroup
			for i, ok := range []*bool{&okA, &okB} {
				wg2.Add(1)
				go func(i int, ok *bool) {
					defer wg2.Done()
					c, _ := cdi.NewCache(cdi.WithSpecDirs(shared), cdi.WithAutoRefresh(false))
					for r := 0; r < rounds; r++ {
						if err := c.WriteSpec(specsToWrite[i], name); err != nil {
							*ok = false
							return
						}
					}
				}(i, ok)
			}
			wg2.Wait()
			_, _ = okA, okB // a write may be refused or fail: whatever IS published must still be one complete Spec
			data, rerr := os.ReadFile(filepath.Join(shared, name))
			if rerr != nil {
				continue // nothing was published under the name
			}
			rs, err := cdi.ReadSpec(filepath.Join(shared, name), 0)
			if err != nil {
				t.Fatalf("C09 violated: two writers published %s concurrently (%d times each); what is there now cannot be read back: %v\nfile content: %s", name, rounds, err, clip(string(data), 1500))
			}
			var a, b specs.Spec // the Specs as a file can hold them
			_ = json.Unmarshal([]byte(specImage(specsToWrite[0])), &a)
			_ = json.Unmarshal([]byte(specImage(specsToWrite[1])), &b)
			if got := specImage(rs.Spec); got != specImage(&a) && got != specImage(&b) {
				t.Fatalf("C09 violated: two writers published %s concurrently (%d times each); the file reads back as neither of the two Specs: %s\nfile content: %s", name, rounds, clip(got, 800), clip(string(data), 1500))
			}
		}
		_ = os.RemoveAll(base)
		_ = os.MkdirAll(base, 0o755)
		var imgs []string
		for _, s := range specsToWrite {
			imgs = append(imgs, specImage(s))
		}
		rec.Case(true, strings.Join(imgs, "\n"), func() any { return map[string]any{"writers": n, "rounds": rounds, "specs": imgs} }, "concurrent-writers")
	})
}

// TestC09Large: Specs whose written form is 0.8 .. 3 MiB (many devices; few
// devices with annotations near their 256 KiB limit; long strings full of
// characters that are written as six-byte escapes) read back equal as well.
func TestC09Large(t *testing.T) {
	rec := stats.For("C09", "large")
	env := &c09Env{base: t.TempDir()}
	type shape struct {
		name string
		mk   func() *specs.Spec
	}
	manyDevices := func(n int) func() *specs.Spec {
		return func() *specs.Spec {
			s := &specs.Spec{Version: "0.6.0", Kind: "vendor.com/many"}
			for i := 0; i < n; i++ {
				s.Devices = append(s.Devices, specs.Device{Name: fmt.Sprintf("dev%05d", i), ContainerEdits: specs.ContainerEdits{
					Env:   []string{fmt.Sprintf("DEVICE_NUMBER_%05d=some-not-so-short-value-%05d", i, i)},
					Hooks: []*specs.Hook{{HookName: "prestart", Path: "/usr/bin/hook", Args: []string{"hook", fmt.Sprintf("--device=%d", i)}}}}})
			}
			return s
		}
	}
	bigAnnotations := func(devs, bytesEach int, fill string) func() *specs.Spec {
		return func() *specs.Spec {
			s := &specs.Spec{Version: "0.6.0", Kind: "vendor.com/blobs"}
			for i := 0; i < devs; i++ {
				s.Devices = append(s.Devices, specs.Device{Name: fmt.Sprintf("d%d", i), Annotations: map[string]string{"vendor.com/blob": strings.Repeat(fill, bytesEach/len(fill))},
					ContainerEdits: specs.ContainerEdits{Env: []string{fmt.Sprintf("D=%d", i)}}})
			}
			return s
		}
	}
	shapes := []shape{
		{"5000-devices", manyDevices(5000)},
		{"6x200KiB-annotations", bigAnnotations(6, 200*1024, "a")},
		{"4x200KiB-control-characters", bigAnnotations(4, 200*1024, "\x01")},
	}
	if tier() == "thorough" {
		shapes = append(shapes, shape{"12000-devices", manyDevices(12000)}, shape{"12x250KiB-annotations", bigAnnotations(12, 250*1024, "xy z")}, shape{"8x120KiB-line-breaks", bigAnnotations(8, 120*1024, "a\n")})
	}
	mine, of := shard()
	for i, sh := range shapes {
		if i%of != mine {
			continue
		}
		s := sh.mk()
		size := len(specImage(s))
		msg, rejected := env.check(s)
		if rejected {
			t.Fatalf("VERIF-HARNESS the large Spec %s is refused for writing", sh.name)
		}
		c := map[string]any{"shape": sh.name, "jsonBytes": size}
		if msg != "" {
			t.Fatalf("C09 violated on a large Spec (%s, %d bytes as JSON): %s", sh.name, size, clip(msg, 1500))
		}
		rec.Case(size > 1<<20, canonJSON(c), func() any { return c }, "large-spec", fmt.Sprintf("size-MiB-%d", size>>20))
	}
}
