package props

import (
	"bufio"
	"bytes"
	"encoding/json"
	"fmt"
	"os"
	"os/exec"
	"path/filepath"
	"regexp"
	"sort"
	"strings"
	"sync"
	"sync/atomic"
	"testing"
	"time"
	"unsafe"

	"golang.org/x/sys/unix"
	"pgregory.net/rapid"
	"tags.cncf.io/container-device-interface/pkg/cdi"
	specs "tags.cncf.io/container-device-interface/specs-go"
	"tags.cncf.io/container-device-interface/verifharness/gen"
	"tags.cncf.io/container-device-interface/verifharness/stats"
)

// ---------------------------------------------------------------- the reader's view

type c10Setup struct {
	dir       string // the Spec directory
	target    string // file name of the Spec being written
	oldImage  string // image of the previous Spec ("" = no previous file)
	oldBytes  []byte
	newImage  string
	bystander map[string][]byte // other files that must stay byte-identical
}

// c10Observe is what any reader of the Spec directory can find at this
// instant. It returns "" if that is admissible: under the target name either
// no file (only if there was none before), the complete previous content or
// the complete new content; nothing else loadable as a Spec; bystanders intact.
// It also returns which content is there: "none", "old" or "new".
func c10Observe(s *c10Setup) (msg, state string) {
	state = "none"
	ents, err := os.ReadDir(s.dir)
	if err != nil {
		if s.oldImage != "" || len(s.bystander) > 0 {
			return fmt.Sprintf("the Spec directory vanished: %v", err), state
		}
		return "", state
	}
	seen := map[string]bool{}
	for _, e := range ents {
		name := e.Name()
		seen[name] = true
		p := filepath.Join(s.dir, name)
		if want, ok := s.bystander[name]; ok {
			got, _ := os.ReadFile(p)
			if !bytes.Equal(got, want) {
				return fmt.Sprintf("bystander file %s changed", name), state
			}
			continue
		}
		ext := filepath.Ext(name)
		if ext != ".json" && ext != ".yaml" {
			continue // temporary files under non-Spec names are never loaded
		}
		if name != s.target {
			return fmt.Sprintf("unexpected entry %s under a Spec file name (it would be loaded by a scan)", name), state
		}
		data, _ := os.ReadFile(p)
		rs, rerr := cdi.ReadSpec(p, 0)
		if rerr != nil {
			return fmt.Sprintf("the file under the Spec name %s is not a complete Spec: %v (content %q)", name, rerr, clip(string(data), 300)), state
		}
		switch img := specImage(rs.Spec); {
		case img == s.newImage:
			state = "new"
		case s.oldImage != "" && img == s.oldImage:
			state = "old"
			if !bytes.Equal(data, s.oldBytes) {
				return "the previous file was rewritten (content equal as a Spec but bytes differ)", state
			}
		default:
			return fmt.Sprintf("%s holds a Spec that is neither the previous nor the new one: %s", name, clip(img, 300)), state
		}
	}
	for name := range s.bystander {
		if !seen[name] {
			return fmt.Sprintf("bystander file %s vanished", name), state
		}
	}
	if s.oldImage != "" && !seen[s.target] {
		return "the previous Spec file vanished (neither old nor new content is there)", state
	}
	// a cache scanning the directory agrees
	c, _ := cdi.NewCache(cdi.WithSpecDirs(s.dir), cdi.WithAutoRefresh(false))
	if err := c.Refresh(); err != nil {
		return fmt.Sprintf("a cache refresh over the directory reports an error: %v", err), state
	}
	return "", state
}

// ---------------------------------------------------------------- strace driver

type straceEvent struct {
	name    string
	ordinal int // n-th invocation of this system call in the main thread (1-based)
	text    string
}

var reStraceLine = regexp.MustCompile(`^(\d+)\s+(\w+)\((.*)$`)

// parseStrace returns the main thread's system calls between the two
// getppid markers, and whether/where the run ended abnormally.
func parseStrace(path string) (window []straceEvent, all []straceEvent, injectedAt int, killed bool, err error) {
	f, err := os.Open(path)
	if err != nil {
		return nil, nil, -1, false, err
	}
	defer f.Close()
	sc := bufio.NewScanner(f)
	sc.Buffer(make([]byte, 1<<20), 1<<24)
	mainPid := ""
	counts := map[string]int{}
	markers := 0
	injectedAt = -1
	for sc.Scan() {
		line := sc.Text()
		fields := strings.SplitN(line, " ", 2)
		if mainPid == "" {
			mainPid = fields[0]
		}
		if fields[0] != mainPid {
			continue
		}
		if strings.Contains(line, "+++ killed by SIGKILL +++") {
			killed = true
			continue
		}
		m := reStraceLine.FindStringSubmatch(line)
		if m == nil {
			continue // "<... x resumed>" and exit lines
		}
		name := m[2]
		counts[name]++
		ev := straceEvent{name: name, ordinal: counts[name], text: m[2] + "(" + m[3]}
		all = append(all, ev)
		if name == "getppid" {
			markers++
			continue
		}
		if markers == 1 {
			if strings.Contains(line, "(INJECTED)") {
				injectedAt = len(window)
			}
			window = append(window, ev)
		}
	}
	return window, all, injectedAt, killed, sc.Err()
}

const straceCalls = "openat,mkdirat,mkdir,write,pwrite64,close,renameat2,renameat,rename,unlinkat,unlink,linkat,link,symlinkat,fsync,fdatasync,ftruncate,fchmod,fchmodat,fchown,getppid,newfstatat"

type c10Tools struct {
	vhelper, strace string
	work            string
}

func (tl *c10Tools) run(logPath string, inject string, args ...string) (out []byte, err error) {
	a := []string{"-f", "-o", logPath, "-e", "trace=" + straceCalls}
	if inject != "" {
		a = append(a, "-e", "inject="+inject)
	}
	a = append(a, tl.vhelper)
	a = append(a, args...)
	cmd := pinnedCommand(tl.strace, a...)
	var so bytes.Buffer
	cmd.Stdout = &so
	err = cmd.Run()
	return so.Bytes(), err
}

// touchesDir reports whether a system call of the window operates on the Spec directory.
func touchesDir(ev straceEvent, dir string, fds map[string]bool) bool {
	if strings.Contains(ev.text, dir) {
		return true
	}
	switch ev.name {
	case "write", "pwrite64", "close", "fsync", "fdatasync", "ftruncate", "fchmod", "fchown", "renameat2", "renameat", "unlinkat", "linkat":
		i := strings.IndexAny(ev.text[len(ev.name)+1:], ",)")
		if i > 0 && fds[ev.text[len(ev.name)+1:len(ev.name)+1+i]] {
			return true
		}
	}
	return false
}

var reRet = regexp.MustCompile(`= (\d+)$`)

type c10Case struct {
	Spec     json.RawMessage `json:"spec"`
	Encoding string          `json:"encoding"`
	Initial  string          `json:"initial"` // no-dir, empty-dir, old-file, old-file-and-bystander
	Mode     string          `json:"mode"`
	Call     string          `json:"call"`
	Result   string          `json:"result"`
}

func c10Prepare(t fataler, root string, initial, target string, oldSpec *specs.Spec) *c10Setup {
	dir := filepath.Join(root, "specs")
	_ = os.RemoveAll(dir)
	s := &c10Setup{dir: dir, target: target, bystander: map[string][]byte{}}
	if initial == "no-dir" {
		return s
	}
	if err := os.MkdirAll(dir, 0o755); err != nil {
		t.Fatalf("VERIF-HARNESS %v", err)
	}
	if strings.HasPrefix(initial, "old-file") {
		c, _ := cdi.NewCache(cdi.WithSpecDirs(dir), cdi.WithAutoRefresh(false))
		if err := c.WriteSpec(oldSpec, target); err != nil {
			t.Fatalf("VERIF-HARNESS cannot write the previous file: %v", err)
		}
		s.oldBytes, _ = os.ReadFile(filepath.Join(dir, target))
		s.oldImage = specImage(oldSpec)
	}
	if initial == "old-file-is-symlink" {
		// the previous Spec file is a symbolic link to a file kept elsewhere: publishing replaces the link
		elsewhere := filepath.Join(root, "elsewhere")
		_ = os.RemoveAll(elsewhere)
		_ = os.MkdirAll(elsewhere, 0o755)
		real := filepath.Join(elsewhere, "kept-"+filepath.Base(target))
		if err := os.Rename(filepath.Join(dir, target), real); err != nil {
			t.Fatalf("VERIF-HARNESS %v", err)
		}
		if err := os.Symlink(real, filepath.Join(dir, target)); err != nil {
			t.Fatalf("VERIF-HARNESS %v", err)
		}
	}
	if initial == "old-file-and-bystander" {
		b := []byte(`{"cdiVersion":"0.3.0","kind":"bystander.org/thing","devices":[{"name":"z","containerEdits":{"env":["Z=1"]}}]}`)
		_ = os.WriteFile(filepath.Join(dir, "bystander.json"), b, 0o644)
		s.bystander["bystander.json"] = b
		_ = os.WriteFile(filepath.Join(dir, "notes.txt"), []byte("not a spec"), 0o644)
		s.bystander["notes.txt"] = []byte("not a spec")
	}
	return s
}

// c10Target draws the Spec file name: mostly plain, sometimes a name in which the text of a Spec extension
// (or of the temporary-file suffix) occurs before the real extension, as generated names of dotted vendor
// domains do (foo.yaml.example.org-gpu.yaml).
func c10Target(t *rapid.T, enc string) string {
	stem := rapid.SampledFrom([]string{"target", "target", "target", "acme.jsonnet-gen", "vendor.yaml.d-gpu", "foo.yaml.example.org-gpu",
		"a.json", "x.yaml", "spec.1.tmp", ".json.hidden", "t.tmp", "pod*ctr0", "*", "a*b*c", "x?[y]"}).Draw(t, "targetStem")
	return stem + enc
}

func c10Specs(t *rapid.T) (newSpec, oldSpec *specs.Spec) {
	newSpec = gen.Spec(t, "new", gen.SpecOpts{Vendors: []string{"v1.com"}, Classes: []string{"gpu"}, DevNames: []string{"d0", "d1"}, MaxDevices: 2,
		Edit: gen.EditOpts{NoHost: true, MaxPer: 2, Hostile: rapid.IntRange(0, 3).Draw(t, "hostile") == 0}})
	oldSpec = &specs.Spec{Version: "0.3.0", Kind: newSpec.Kind, Devices: []specs.Device{{Name: "d0", ContainerEdits: specs.ContainerEdits{Env: []string{"PREVIOUS=content"}}}}}
	if specImage(oldSpec) == specImage(newSpec) {
		oldSpec.Devices[0].ContainerEdits.Env = []string{"PREVIOUS=other"}
	}
	return
}

func newC10Tools(t testing.TB) *c10Tools {
	tl := &c10Tools{vhelper: filepath.Join(os.Getenv("VERIF_BIN_DIR"), "vhelper"), work: t.TempDir()}
	if _, err := os.Stat(tl.vhelper); err != nil {
		t.Fatalf("VERIF-UNDECIDED vhelper binary not found: %v", err)
	}
	tl.strace, _ = exec.LookPath("strace")
	return tl
}

// TestC10Syscalls enumerates, for each generated (Spec, encoding, initial
// state), every system call the writer performs on the Spec directory, and
// for each of them one run where the writer is killed on entry to that call
// and one run per injected errno.
func TestC10Syscalls(t *testing.T) {
	rec := stats.For("C10", "syscalls")
	tl := newC10Tools(t)
	if tl.strace == "" {
		rec.Label("env:strace-unavailable-skipped")
		t.Skip("VERIF-ENV-SKIP strace not available")
	}
	// probe: can strace attach and inject here?
	probeSpec := filepath.Join(tl.work, "probe.json")
	_ = os.WriteFile(probeSpec, []byte(`{"cdiVersion":"0.3.0","kind":"v1.com/gpu","devices":[{"name":"d0","containerEdits":{"env":["A=b"]}}]}`), 0o644)
	if _, err := tl.run(filepath.Join(tl.work, "probe.log"), "", "write", filepath.Join(tl.work, "probe-dir"), "p.json", probeSpec); err != nil {
		rec.Label("env:strace-unavailable-skipped")
		t.Skipf("VERIF-ENV-SKIP strace cannot trace here: %v", err)
	}
	rapid.Check(t, func(t *rapid.T) {
		newSpec, oldSpec := c10Specs(t)
		enc := rapid.SampledFrom([]string{".json", ".yaml"}).Draw(t, "encoding")
		initial := rapid.SampledFrom([]string{"no-dir", "empty-dir", "old-file", "old-file", "old-file-and-bystander", "old-file-is-symlink"}).Draw(t, "initial")
		target := c10Target(t, enc)
		root := filepath.Join(tl.work, "case")
		_ = os.RemoveAll(root)
		_ = os.MkdirAll(root, 0o755)
		specFile := filepath.Join(root, "new-spec.json")
		_ = os.WriteFile(specFile, []byte(specImage(newSpec)), 0o644)
		logPath := filepath.Join(root, "strace.log")
		base := c10Case{Spec: json.RawMessage(specImage(newSpec)), Encoding: enc, Initial: initial}

		// calibration on exactly this initial state
		s := c10Prepare(t, root, initial, target, oldSpec)
		s.newImage = specImage(newSpec)
		out, err := tl.run(logPath, "", "write", s.dir, target, specFile)
		if err != nil {
			t.Fatalf("VERIF-UNDECIDED calibration run failed: %v", err)
		}
		if !strings.Contains(string(out), "{}") {
			t.Fatalf("VERIF-HARNESS the generated Spec is refused by WriteSpec: %s", out)
		}
		if msg, st := c10Observe(s); msg != "" || st != "new" {
			t.Fatalf("C10 violated: after a successful write the directory does not hold the new Spec (%s): %s", st, msg)
		}
		window, _, _, _, perr := parseStrace(logPath)
		if perr != nil || len(window) == 0 {
			t.Fatalf("VERIF-UNDECIDED cannot parse the calibration trace: %v", perr)
		}
		// calls that touch the Spec directory (by path or by a descriptor opened there)
		fds := map[string]bool{}
		var targets []straceEvent
		var dirChanging []int
		for _, ev := range window {
			if touchesDir(ev, s.dir, fds) {
				if ev.name == "openat" {
					if m := reRet.FindStringSubmatch(ev.text); m != nil {
						fds[m[1]] = true
					}
				}
				if ev.name == "close" {
					delete(fds, strings.TrimSuffix(strings.TrimPrefix(strings.SplitN(ev.text, ")", 2)[0], "close("), ")"))
				}
				targets = append(targets, ev)
				switch ev.name {
				case "newfstatat", "close":
				default:
					dirChanging = append(dirChanging, len(targets)-1)
				}
			}
		}
		if len(targets) < 4 {
			t.Fatalf("VERIF-UNDECIDED calibration found only %d calls on the Spec directory: %v", len(targets), window)
		}
		rec.Add("calibrations", 1)
		modes := []string{"signal=SIGKILL", "error=ENOSPC", "error=EIO", "error=EACCES", "error=EPERM", "error=EMFILE"}
		for k, ev := range targets {
			for _, mode := range modes {
				if ev.name == "newfstatat" && mode != "signal=SIGKILL" && mode != "error=EACCES" {
					continue
				}
				// a second fault in the same run for refused opens on a directory that holds a previous file: the size
				// limit of the writer is 7 bytes, so that whatever it writes after the refusal is cut short
				cuts := []int{-1}
				if ev.name == "openat" && strings.HasPrefix(mode, "error=") && strings.HasPrefix(initial, "old-file") {
					cuts = []int{-1, 7}
				}
				for _, cut := range cuts {
					s := c10Prepare(t, root, initial, target, oldSpec)
					s.newImage = specImage(newSpec)
					inject := fmt.Sprintf("%s:when=%d:%s", ev.name, ev.ordinal, mode)
					args := []string{"write", s.dir, target, specFile}
					if cut >= 0 {
						args = []string{"write", "--fsize", fmt.Sprint(cut), s.dir, target, specFile}
					}
					out, _ := tl.run(logPath, inject, args...)
					w2, _, injectedAt, killed, perr := parseStrace(logPath)
					// did the fault land on the intended call?
					landed := perr == nil
					if mode == "signal=SIGKILL" {
						landed = landed && killed && len(w2) > 0 && w2[len(w2)-1].name == ev.name && w2[len(w2)-1].ordinal == ev.ordinal && len(w2) == indexInWindow(window, ev)+1
					} else {
						landed = landed && !killed && injectedAt >= 0 && w2[injectedAt].name == ev.name && w2[injectedAt].ordinal == ev.ordinal
					}
					if !landed {
						rec.Excluded("fault-did-not-land-on-the-intended-call")
						continue
					}
					c := base
					c.Mode, c.Call = mode, fmt.Sprintf("#%d %s", k, clip(ev.text, 120))
					if cut >= 0 {
						c.Mode += fmt.Sprintf(" and the writer's file size limit is %d bytes", cut)
					}
					msg, st := c10Observe(s)
					var res struct{ Err string }
					_ = json.Unmarshal(bytes.TrimSpace(out), &res)
					switch {
					case killed:
						c.Result = "killed; directory holds " + st
					case res.Err != "":
						c.Result = "WriteSpec failed; directory holds " + st
					default:
						c.Result = "WriteSpec succeeded; directory holds " + st
						if msg == "" && st != "new" {
							msg = "WriteSpec reported success but the directory does not hold the new Spec"
						}
					}
					if msg == "" && (killed || res.Err != "") {
						msg = tl.followUp(root, s)
					}
					if msg != "" {
						t.Fatalf("C10 violated: %s\nfault: %s on call %s\ninitial state: %s, encoding %s\nSpec: %s", msg, mode, c.Call, initial, enc, clip(specImage(newSpec), 1500))
					}
					between := len(dirChanging) > 0 && k > dirChanging[0] && k <= dirChanging[len(dirChanging)-1]
					labels := []string{"mode:" + mode, "call:" + ev.name, "initial:" + initial, "enc:" + enc, "holds:" + st}
					if killed {
						labels = append(labels, "writer-killed")
					}
					if cut >= 0 {
						labels = append(labels, "refused-open-and-size-limit")
					}
					rec.Case(between && strings.HasPrefix(initial, "old-file"), canonJSON(c), func() any { return c }, labels...)
				}
			}
		}
	})
}

// followUp writes a different, short Spec under the same name into the directory as the failed or
// interrupted run left it. Whatever that run left behind (temporary files included) must not show
// in what is published now: the target must hold exactly the follow-up Spec.
func (tl *c10Tools) followUp(root string, s *c10Setup) string {
	fu := &specs.Spec{Version: "0.3.0", Kind: "v1.com/gpu", Devices: []specs.Device{{Name: "d0", ContainerEdits: specs.ContainerEdits{Env: []string{"FOLLOW=up"}}}}}
	fuFile := filepath.Join(root, "follow-up.json")
	_ = os.WriteFile(fuFile, []byte(specImage(fu)), 0o644)
	out, err := pinnedCommand(tl.vhelper, "write", s.dir, s.target, fuFile).Output()
	if err != nil || !strings.Contains(string(out), "{}") {
		return fmt.Sprintf("a write that follows the failed / interrupted one fails: %v %s", err, out)
	}
	s2 := &c10Setup{dir: s.dir, target: s.target, newImage: specImage(fu), bystander: s.bystander}
	msg, st := c10Observe(s2)
	if msg == "" && st != "new" {
		msg = "the directory does not hold the follow-up Spec"
	}
	if msg != "" {
		data, _ := os.ReadFile(filepath.Join(s.dir, s.target))
		return fmt.Sprintf("after the failed / interrupted write, the next write of the same name does not publish exactly its own content: %s (file now: %q)", msg, clip(string(data), 400))
	}
	return ""
}

func indexInWindow(w []straceEvent, ev straceEvent) int {
	for i, x := range w {
		if x.name == ev.name && x.ordinal == ev.ordinal {
			return i
		}
	}
	return -1
}

// TestC10WriteOffsets makes the write fail after n bytes, for every n
// (quick: a sample of offsets), with a genuine partial write: RLIMIT_FSIZE in
// the helper process.
func TestC10WriteOffsets(t *testing.T) {
	rec := stats.For("C10", "offsets")
	tl := newC10Tools(t)
	stride := envInt("VERIF_C10_OFFSET_STRIDE", 7)
	rapid.Check(t, func(t *rapid.T) {
		every := stride
		newSpec, oldSpec := c10Specs(t)
		enc := rapid.SampledFrom([]string{".json", ".yaml"}).Draw(t, "encoding")
		initial := rapid.SampledFrom([]string{"empty-dir", "old-file", "old-file-and-bystander", "old-file-is-symlink"}).Draw(t, "initial")
		target := c10Target(t, enc)
		root := filepath.Join(tl.work, "ocase")
		_ = os.RemoveAll(root)
		_ = os.MkdirAll(root, 0o755)
		specFile := filepath.Join(root, "new-spec.json")
		_ = os.WriteFile(specFile, []byte(specImage(newSpec)), 0o644)
		// size of the complete file
		s := c10Prepare(t, root, initial, target, oldSpec)
		s.newImage = specImage(newSpec)
		if out, err := pinnedCommand(tl.vhelper, "write", s.dir, target, specFile).Output(); err != nil || !strings.Contains(string(out), "{}") {
			t.Fatalf("VERIF-HARNESS reference write failed: %v %s", err, out)
		}
		full, _ := os.ReadFile(filepath.Join(s.dir, target))
		// at most ~150 offsets per case in the quick tier (stride 1 = every offset in the thorough tier)
		if every > 1 && len(full)/every > 150 {
			every = len(full) / 150
		}
		start := rapid.IntRange(0, every-1).Draw(t, "firstOffset")
		for n := start; n <= len(full)+1; n += every {
			s := c10Prepare(t, root, initial, target, oldSpec)
			s.newImage = specImage(newSpec)
			out, err := pinnedCommand(tl.vhelper, "write", "--fsize", fmt.Sprint(n), s.dir, target, specFile).Output()
			if err != nil {
				t.Fatalf("VERIF-UNDECIDED helper failed: %v", err)
			}
			var res struct{ Err string }
			_ = json.Unmarshal(bytes.TrimSpace(out), &res)
			msg, st := c10Observe(s)
			if msg == "" && res.Err == "" && st != "new" {
				msg = "WriteSpec reported success but the directory does not hold the new Spec"
			}
			if msg == "" && n < len(full) && st == "new" {
				msg = fmt.Sprintf("the write was cut after %d of %d bytes, yet the target holds the new Spec", n, len(full))
			}
			c := c10Case{Spec: json.RawMessage(specImage(newSpec)), Encoding: enc, Initial: initial, Mode: fmt.Sprintf("write fails after %d of %d bytes", n, len(full)), Result: "directory holds " + st}
			if msg == "" && res.Err != "" {
				msg = tl.followUp(root, s)
			}
			if msg != "" {
				t.Fatalf("C10 violated: %s\n%s\ninitial state: %s, encoding %s\nSpec: %s", msg, c.Mode, initial, enc, clip(specImage(newSpec), 1500))
			}
			part := "partial"
			if n == 0 {
				part = "nothing-written"
			} else if n >= len(full) {
				part = "complete"
			}
			rec.Case(n > 0 && n < len(full) && strings.HasPrefix(initial, "old-file"), canonJSON(c), func() any { return c }, "offset:"+part, "initial:"+initial, "enc:"+enc, "holds:"+st)
		}
	})
}

// TestC10Events records the raw inotify event stream of the directory during
// WriteSpec: a name ending in .json/.yaml must never be seen being filled.
func TestC10Events(t *testing.T) {
	rec := stats.For("C10", "events")
	base := t.TempDir()
	seq := 0
	rapid.Check(t, func(t *rapid.T) {
		seq++
		newSpec, oldSpec := c10Specs(t)
		enc := rapid.SampledFrom([]string{".json", ".yaml", ""}).Draw(t, "encoding")
		initial := rapid.SampledFrom([]string{"empty-dir", "old-file", "old-file-and-bystander", "old-file-is-symlink"}).Draw(t, "initial")
		name := c10Target(t, enc)
		target := name
		if e := filepath.Ext(name); e != ".json" && e != ".yaml" {
			target += ".yaml" // extension-less names are written as YAML under <name>.yaml
		}
		root := filepath.Join(base, fmt.Sprintf("e%d", seq%8))
		s := c10Prepare(t, root, initial, target, oldSpec)
		s.newImage = specImage(newSpec)
		fd, err := unix.InotifyInit1(unix.IN_CLOEXEC | unix.IN_NONBLOCK)
		if err != nil {
			t.Fatalf("VERIF-UNDECIDED inotify_init: %v", err)
		}
		defer unix.Close(fd)
		c, _ := cdi.NewCache(cdi.WithSpecDirs(s.dir), cdi.WithAutoRefresh(false))
		if _, err := unix.InotifyAddWatch(fd, s.dir, unix.IN_ALL_EVENTS); err != nil {
			t.Fatalf("VERIF-UNDECIDED inotify_add_watch: %v", err)
		}
		if err := c.WriteSpec(newSpec, name); err != nil {
			t.Fatalf("VERIF-HARNESS WriteSpec: %v", err)
		}
		buf := make([]byte, 64*1024)
		n, _ := unix.Read(fd, buf)
		type iev struct {
			mask uint32
			name string
		}
		var evs []iev
		for off := 0; off+unix.SizeofInotifyEvent <= n; {
			raw := (*unix.InotifyEvent)(unsafe.Pointer(&buf[off]))
			nm := strings.TrimRight(string(buf[off+unix.SizeofInotifyEvent:off+unix.SizeofInotifyEvent+int(raw.Len)]), "\x00")
			evs = append(evs, iev{raw.Mask, nm})
			off += unix.SizeofInotifyEvent + int(raw.Len)
		}
		var trace []string
		for _, e := range evs {
			trace = append(trace, fmt.Sprintf("%s:%s", maskNames(e.mask), e.name))
		}
		isSpecName := func(n string) bool { e := filepath.Ext(n); return e == ".json" || e == ".yaml" }
		for _, e := range evs {
			if e.name == "" || !isSpecName(e.name) {
				continue
			}
			if e.mask&(unix.IN_MODIFY|unix.IN_CLOSE_WRITE) != 0 && e.mask&unix.IN_ISDIR == 0 {
				t.Fatalf("C10 violated: the name %s was written in place while publishing (events: %v)", e.name, trace)
			}
			if e.mask&unix.IN_CREATE != 0 && e.name != target {
				t.Fatalf("C10 violated: a temporary entry %s was created under a Spec file name (events: %v)", e.name, trace)
			}
			if e.mask&unix.IN_DELETE != 0 && e.name == target {
				t.Fatalf("C10 violated: the target was removed before the new content was put in place (events: %v)", trace)
			}
		}
		if msg, st := c10Observe(s); msg != "" || st != "new" {
			t.Fatalf("C10 violated: after WriteSpec the directory holds %s: %s", st, msg)
		}
		rec.Case(strings.HasPrefix(initial, "old-file"), canonJSON(trace)+specImage(newSpec), func() any { return map[string]any{"events": trace, "initial": initial, "name": name} }, "initial:"+initial, "enc:"+enc)
	})
}

func maskNames(m uint32) string {
	var out []string
	for _, x := range []struct {
		bit  uint32
		name string
	}{{unix.IN_CREATE, "CREATE"}, {unix.IN_MODIFY, "MODIFY"}, {unix.IN_OPEN, "OPEN"}, {unix.IN_CLOSE_WRITE, "CLOSE_WRITE"}, {unix.IN_CLOSE_NOWRITE, "CLOSE_NOWRITE"},
		{unix.IN_MOVED_FROM, "MOVED_FROM"}, {unix.IN_MOVED_TO, "MOVED_TO"}, {unix.IN_DELETE, "DELETE"}, {unix.IN_ATTRIB, "ATTRIB"}, {unix.IN_ACCESS, "ACCESS"}, {unix.IN_ISDIR, "ISDIR"}} {
		if m&x.bit != 0 {
			out = append(out, x.name)
		}
	}
	return strings.Join(out, "|")
}

// TestC10Readers: readers and a refreshing cache run concurrently with a
// writer that alternates two contents (schedule-random stress).
func TestC10Readers(t *testing.T) {
	rec := stats.For("C10", "readers")
	dur := time.Duration(envInt("VERIF_C10_STRESS_MS", 3000)) * time.Millisecond
	for _, enc := range []string{".json", ".yaml"} {
		dir := filepath.Join(t.TempDir(), "specs")
		a := &specs.Spec{Version: "0.3.0", Kind: "v1.com/gpu", Devices: []specs.Device{{Name: "d0", ContainerEdits: specs.ContainerEdits{Env: []string{"CONTENT=A", "PAD=" + strings.Repeat("a", 3000)}}}}}
		b := &specs.Spec{Version: "0.3.0", Kind: "v1.com/gpu", Devices: []specs.Device{{Name: "d0", ContainerEdits: specs.ContainerEdits{Env: []string{"CONTENT=B", "PAD=" + strings.Repeat("b", 9000)}}}}}
		imgA, imgB := specImage(a), specImage(b)
		w, _ := cdi.NewCache(cdi.WithSpecDirs(dir), cdi.WithAutoRefresh(false))
		name := "shared" + enc
		if err := w.WriteSpec(a, name); err != nil {
			t.Fatal(err)
		}
		var stop atomic.Bool
		var reads, refreshes, writes, writeErrors atomic.Int64
		var failure atomic.Value
		var wg sync.WaitGroup
		for r := 0; r < 4; r++ {
			wg.Add(1)
			go func() {
				defer wg.Done()
				for !stop.Load() {
					rs, err := cdi.ReadSpec(filepath.Join(dir, name), 0)
					if err != nil {
						failure.Store(fmt.Sprintf("a reader found no complete Spec under %s while it was being overwritten: %v", name, err))
						return
					}
					if img := specImage(rs.Spec); img != imgA && img != imgB {
						failure.Store("a reader found a Spec that is neither of the two contents")
						return
					}
					reads.Add(1)
				}
			}()
		}
		for r := 0; r < 2; r++ {
			wg.Add(1)
			go func() {
				defer wg.Done()
				c, _ := cdi.NewCache(cdi.WithSpecDirs(dir), cdi.WithAutoRefresh(false))
				for !stop.Load() {
					if err := c.Refresh(); err != nil {
						failure.Store(fmt.Sprintf("a refreshing cache found an error while the file was being overwritten: %v", err))
						return
					}
					d := c.GetDevice("v1.com/gpu=d0")
					if d == nil {
						failure.Store("a refreshing cache lost the device while the file was being overwritten")
						return
					}
					if e := d.ContainerEdits.Env[0]; e != "CONTENT=A" && e != "CONTENT=B" {
						failure.Store("a refreshing cache saw foreign content")
						return
					}
					refreshes.Add(1)
				}
			}()
		}
		deadline := time.Now().Add(dur / 2)
		var ww sync.WaitGroup
		for wi := 0; wi < 2; wi++ { // two writers publish the same name concurrently
			ww.Add(1)
			go func(wi int) {
				defer ww.Done()
				wc, _ := cdi.NewCache(cdi.WithSpecDirs(dir), cdi.WithAutoRefresh(false))
				for i := wi; time.Now().Before(deadline) && failure.Load() == nil; i++ {
					s := a
					if i%2 == 0 {
						s = b
					}
					if err := wc.WriteSpec(s, name); err != nil {
						// a writer losing against another one is not what C10 is about: only what readers find is judged
						writeErrors.Add(1)
						continue
					}
					writes.Add(1)
				}
			}(wi)
		}
		ww.Wait()
		stop.Store(true)
		wg.Wait()
		if f := failure.Load(); f != nil {
			p := saveReplay("C10", "readers", map[string]any{"encoding": enc, "writes": writes.Load()})
			t.Fatalf("C10 violated: %v\nreplay: %s", f, p)
		}
		leftovers, _ := filepath.Glob(filepath.Join(dir, "*"))
		sort.Strings(leftovers)
		if len(leftovers) != 1 {
			t.Fatalf("C10 violated: after the writer finished the directory holds %v", leftovers)
		}
		rec.Add("reader-observations", reads.Load())
		rec.Add("cache-refresh-observations", refreshes.Load())
		rec.Add("overwrites", writes.Load())
		rec.Add("concurrent-write-errors", writeErrors.Load())
		rec.Case(true, fmt.Sprintf("stress %s %d", enc, writes.Load()), func() any {
			return map[string]any{"encoding": enc, "overwrites": writes.Load(), "readerObservations": reads.Load(), "refreshObservations": refreshes.Load()}
		}, "stress", "enc:"+enc)
		rec.Case(true, fmt.Sprintf("stress-readers %s %d", enc, reads.Load()), nil, "stress-readers")
	}
}

// TestC10MountPoint: the previous Spec file is a mount point (a single-file
// bind mount, as container runtimes create them), so rename(2) onto it fails
// with EBUSY. Whatever the writer does then - give up or find another way -
// a reader must never find anything but the complete previous or the complete
// new content, also when the write is cut at a generated offset.
func TestC10MountPoint(t *testing.T) {
	rec := stats.For("C10", "mountpoint")
	tl := newC10Tools(t)
	rapid.Check(t, func(t *rapid.T) {
		newSpec, oldSpec := c10Specs(t)
		enc := rapid.SampledFrom([]string{".json", ".yaml"}).Draw(t, "encoding")
		target := c10Target(t, enc)
		root := filepath.Join(tl.work, "mcase")
		_ = os.RemoveAll(root)
		_ = os.MkdirAll(root, 0o755)
		specFile := filepath.Join(root, "new-spec.json")
		_ = os.WriteFile(specFile, []byte(specImage(newSpec)), 0o644)
		// size of the complete new file, from a reference write elsewhere
		ref := filepath.Join(root, "ref")
		if out, err := pinnedCommand(tl.vhelper, "write", ref, target, specFile).Output(); err != nil || !strings.Contains(string(out), "{}") {
			t.Fatalf("VERIF-HARNESS reference write failed: %v %s", err, out)
		}
		full, _ := os.ReadFile(filepath.Join(ref, target))
		cuts := []int{-1, 0, rapid.IntRange(1, len(full)-1).Draw(t, "cut"), len(full) + 1}
		for _, n := range cuts {
			s := c10Prepare(t, root, "old-file-and-bystander", target, oldSpec)
			s.newImage = specImage(newSpec)
			p := filepath.Join(s.dir, target)
			if err := unix.Mount(p, p, "", unix.MS_BIND, ""); err != nil {
				rec.Label("mount-unavailable")
				return
			}
			args := []string{"write"}
			mode := "uncut write"
			if n >= 0 {
				args = append(args, "--fsize", fmt.Sprint(n))
				mode = fmt.Sprintf("write cut after %d of %d bytes", n, len(full))
			}
			out, err := pinnedCommand(tl.vhelper, append(args, s.dir, target, specFile)...).Output()
			var res struct{ Err string }
			_ = json.Unmarshal(bytes.TrimSpace(out), &res)
			msg, st := "", ""
			if err != nil {
				msg = fmt.Sprintf("VERIF-UNDECIDED helper failed: %v", err)
			} else {
				msg, st = c10Observe(s)
				if msg == "" && res.Err == "" && st != "new" {
					msg = "WriteSpec reported success but the directory does not hold the new Spec"
				}
				if msg == "" && n >= 0 && n < len(full) && st == "new" {
					msg = fmt.Sprintf("the write was cut after %d of %d bytes, yet the target holds the new Spec", n, len(full))
				}
			}
			if uerr := unix.Unmount(p, unix.MNT_DETACH); uerr != nil {
				t.Fatalf("VERIF-HARNESS cannot unmount %s: %v", p, uerr)
			}
			if strings.HasPrefix(msg, "VERIF-") {
				t.Fatalf("%s", msg)
			}
			c := c10Case{Spec: json.RawMessage(specImage(newSpec)), Encoding: enc, Initial: "old-file-is-a-mount-point", Mode: mode, Result: "directory holds " + st}
			if msg != "" {
				t.Fatalf("C10 violated: %s\n%s; the previous Spec file is a mount point (rename onto it fails with EBUSY); WriteSpec returned %q\nencoding %s\nSpec: %s", msg, mode, res.Err, enc, clip(specImage(newSpec), 1500))
			}
			rec.Case(n >= 0 && n < len(full), canonJSON(c), func() any { return c }, "mount-point", "holds:"+st, "enc:"+enc)
		}
		// crash points: whatever the writer does after the rename was refused, a kill on entry to any of its
		// calls on the Spec directory must leave the complete previous or the complete new content
		if tl.strace == "" {
			rec.Label("env:strace-unavailable-skipped")
			return
		}
		logPath := filepath.Join(root, "strace.log")
		prepare := func() (*c10Setup, string, bool) {
			s := c10Prepare(t, root, "old-file-and-bystander", target, oldSpec)
			s.newImage = specImage(newSpec)
			p := filepath.Join(s.dir, target)
			return s, p, unix.Mount(p, p, "", unix.MS_BIND, "") == nil
		}
		s, p, ok := prepare()
		if !ok {
			return
		}
		_, err := tl.run(logPath, "", "write", s.dir, target, specFile)
		_ = unix.Unmount(p, unix.MNT_DETACH)
		window, _, _, _, perr := parseStrace(logPath)
		if err != nil || perr != nil || len(window) == 0 {
			rec.Label("env:strace-unavailable-skipped")
			return
		}
		fds := map[string]bool{}
		var targets []straceEvent
		for _, ev := range window {
			if touchesDir(ev, s.dir, fds) {
				if ev.name == "openat" {
					if m := reRet.FindStringSubmatch(ev.text); m != nil {
						fds[m[1]] = true
					}
				}
				if ev.name != "newfstatat" && ev.name != "close" {
					targets = append(targets, ev)
				}
			}
		}
		for k, ev := range targets {
			s, p, ok := prepare()
			if !ok {
				return
			}
			inject := fmt.Sprintf("%s:when=%d:signal=SIGKILL", ev.name, ev.ordinal)
			_, _ = tl.run(logPath, inject, "write", s.dir, target, specFile)
			_, _, _, killed, perr := parseStrace(logPath)
			msg, st := c10Observe(s)
			if uerr := unix.Unmount(p, unix.MNT_DETACH); uerr != nil {
				t.Fatalf("VERIF-HARNESS cannot unmount %s: %v", p, uerr)
			}
			if perr != nil || !killed {
				rec.Excluded("fault-did-not-land-on-the-intended-call")
				continue
			}
			c := c10Case{Spec: json.RawMessage(specImage(newSpec)), Encoding: enc, Initial: "old-file-is-a-mount-point", Mode: "signal=SIGKILL", Call: fmt.Sprintf("#%d %s", k, clip(ev.text, 120)), Result: "killed; directory holds " + st}
			if msg != "" {
				t.Fatalf("C10 violated: %s\nthe previous Spec file is a mount point (rename onto it fails with EBUSY); writer killed on entry to call %s\nencoding %s\nSpec: %s", msg, c.Call, enc, clip(specImage(newSpec), 1500))
			}
			rec.Case(true, canonJSON(c), func() any { return c }, "mount-point", "mount-point-writer-killed", "call:"+ev.name, "holds:"+st, "enc:"+enc)
		}
	})
}
