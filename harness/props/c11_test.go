package props

import (
	"encoding/json"
	"fmt"
	"os"
	"path/filepath"
	"runtime"
	"sort"
	"strings"
	"sync/atomic"
	"testing"
	"time"

	"pgregory.net/rapid"
	"tags.cncf.io/container-device-interface/pkg/cdi"
	"tags.cncf.io/container-device-interface/verifharness/obs"
	"tags.cncf.io/container-device-interface/verifharness/stats"
)

// cacheView is what queries tell: devices with their definitions, and the
// files in error. Keys that are configured directories (monitoring errors,
// which exist only in auto-refresh mode) are left out.
func cacheView(c *cdi.Cache, dirs []string) string {
	var sb strings.Builder
	for _, d := range c.ListDevices() {
		dev := c.GetDevice(d)
		if dev == nil {
			sb.WriteString(d + " <listed but nil>\n")
			continue
		}
		b, _ := json.Marshal(dev.Device)
		fmt.Fprintf(&sb, "%s %s %d %s\n", d, dev.GetSpec().GetPath(), dev.GetSpec().GetPriority(), b)
	}
	isDir := map[string]bool{}
	for _, d := range dirs {
		isDir[d] = true
	}
	var keys []string
	for k := range c.GetErrors() {
		if !isDir[k] {
			keys = append(keys, k)
		}
	}
	sort.Strings(keys)
	sb.WriteString("errors: " + strings.Join(keys, ","))
	return sb.String()
}

func freshView(dirs []string) string {
	c, _ := cdi.NewCache(cdi.WithSpecDirs(dirs...), cdi.WithAutoRefresh(false))
	_ = c.Refresh()
	return cacheView(c, dirs)
}

// converge polls the auto-refresh cache until its view equals the fresh
// view; only "still different after the bound" is a failure.
func converge(c *cdi.Cache, dirs []string, bound time.Duration) (ok bool, got, want string, took time.Duration) {
	start := time.Now()
	want = freshView(dirs)
	for {
		got = cacheView(c, dirs)
		if got == want {
			return true, got, want, time.Since(start)
		}
		if time.Since(start) > bound {
			// the directory is quiescent: recompute the reference once more and compare a last time
			want = freshView(dirs)
			got = cacheView(c, dirs)
			return got == want, got, want, time.Since(start)
		}
		if time.Since(start) < 200*time.Millisecond {
			time.Sleep(2 * time.Millisecond)
		} else {
			time.Sleep(50 * time.Millisecond)
		}
	}
}

var c11Seq int

func c11Content(t *rapid.T, label string) (data []byte, desc string) {
	c11Seq++
	switch rapid.IntRange(0, 6).Draw(t, label+"content") {
	case 0:
		return []byte("{bad"), "invalid"
	case 1:
		return []byte{}, "empty"
	default:
		kind := rapid.SampledFrom([]string{"v1.com/gpu", "v2.org/gpu"}).Draw(t, label+"kind")
		dev := rapid.SampledFrom([]string{"a", "b"}).Draw(t, label+"dev")
		doc := fmt.Sprintf(`{"cdiVersion":"0.3.0","kind":"%s","devices":[{"name":"%s","containerEdits":{"env":["M=%d"]}}]}`, kind, dev, c11Seq)
		return []byte(doc), kind + "=" + dev
	}
}

type c11Step struct {
	Op     string `json:"op"`
	Pacing string `json:"pacing"`
}

// c11Pacings: what happens between two changes. "hold" and "release" make the harness the owner of the
// schedule: while the cache's (exported) mutex is held the watcher goroutine cannot handle any event, so the
// events of the following changes pile up and are handled in one burst, against a later state of the
// directories, once the mutex is released - the schedule a slow or descheduled watcher goroutine produces.
var c11Pacings = []string{"none", "none", "yield", "1ms", "20ms", "query", "hold", "release", "release+settle"}

func isSymlink(p string) bool {
	st, err := os.Lstat(p)
	return err == nil && st.Mode()&os.ModeSymlink != 0
}

func propC11(rec *stats.Rec, sc *scratch, exclude map[string]bool) func(t *rapid.T) {
	return propC11Paced(rec, sc, exclude, c11Pacings)
}

func propC11Paced(rec *stats.Rec, sc *scratch, exclude map[string]bool, pacings []string) func(t *rapid.T) {
	return func(t *rapid.T) {
		root := sc.dir()
		defer os.RemoveAll(root)
		nDirs := rapid.IntRange(1, 3).Draw(t, "nDirs")
		var dirs []string
		exists := map[string]bool{}
		// one configuration in four nests the second directory in the first (the scan of the outer one ignores
		// subdirectories; the inner one is a Spec directory of its own, with higher priority)
		nested := nDirs >= 2 && rapid.IntRange(0, 3).Draw(t, "nested") == 0
		for i := 0; i < nDirs; i++ {
			d := filepath.Join(root, fmt.Sprintf("d%d", i))
			if nested && i == 1 {
				d = filepath.Join(dirs[0], "sub")
			}
			dirs = append(dirs, d)
			if rapid.IntRange(0, 3).Draw(t, fmt.Sprintf("d%dExists", i)) != 0 {
				_ = os.MkdirAll(d, 0o755)
			}
		}
		// what exists is read from the file system (removing or renaming an outer directory takes the inner one along)
		syncExists := func() {
			for _, d := range dirs {
				st, err := os.Stat(d)
				exists[d] = err == nil && st.IsDir()
			}
		}
		syncExists()
		outside := filepath.Join(root, "outside")
		_ = os.MkdirAll(outside, 0o755)
		// initial content
		names := []string{"x.json", "y.yaml", "z.json", ".h.yaml"} // a hidden name is a Spec name like any other
		for _, d := range dirs {
			if exists[d] && rapid.Bool().Draw(t, "init-"+filepath.Base(d)) {
				data, _ := c11Content(t, "init"+filepath.Base(d))
				_ = os.WriteFile(filepath.Join(d, rapid.SampledFrom(names).Draw(t, "initName"+filepath.Base(d))), data, 0o644)
			}
		}
		waitForInotify()
		cache, _ := cdi.NewCache(cdi.WithSpecDirs(dirs...), cdi.WithAutoRefresh(true))
		held := false
		release := func() {
			if held {
				held = false
				cache.Unlock()
			}
		}
		defer func() {
			release()
			_ = cache.Configure(cdi.WithAutoRefresh(false))
		}()
		undecidedIfNoInotify(t, cache)

		var history []c11Step
		labels := map[string]bool{}
		outSeq := 0
		existingDirs := func() []string {
			var out []string
			for _, d := range dirs {
				if exists[d] {
					out = append(out, d)
				}
			}
			return out
		}
		specFiles := func() []string {
			var out []string
			for _, d := range existingDirs() {
				ents, _ := os.ReadDir(d)
				for _, e := range ents {
					if !e.IsDir() {
						out = append(out, filepath.Join(d, e.Name()))
					}
				}
			}
			sort.Strings(out)
			return out
		}
		rel := func(p string) string { r, _ := filepath.Rel(root, p); return r }
		record := func(t *rapid.T, op string) {
			p := rapid.SampledFrom(pacings).Draw(t, "pacing")
			if held && p == "query" {
				p = "release+query" // a query needs the mutex
			}
			switch p {
			case "hold":
				if !held {
					cache.Lock()
					held = true
					labels["watcher-held-off"] = true
				}
			case "release":
				release()
			case "release+settle":
				release()
				time.Sleep(30 * time.Millisecond)
			case "release+query":
				release()
				_ = cache.ListDevices()
			case "yield":
				runtime.Gosched()
			case "1ms":
				time.Sleep(time.Millisecond)
			case "20ms":
				time.Sleep(20 * time.Millisecond)
			case "query":
				_ = cache.ListDevices()
			}
			history = append(history, c11Step{op, p})
			labels["op:"+strings.SplitN(op, " ", 2)[0]] = true
			syncExists()
			if nested {
				labels["nested-directories"] = true
			}
		}
		pickDir := func(t *rapid.T) string {
			ex := existingDirs()
			if len(ex) == 0 {
				t.Skip("no existing directory")
			}
			return rapid.SampledFrom(ex).Draw(t, "dir")
		}
		pickFile := func(t *rapid.T) string {
			fs := specFiles()
			if len(fs) == 0 {
				t.Skip("no file")
			}
			return rapid.SampledFrom(fs).Draw(t, "file")
		}
		awaySeq := 0
		actions := map[string]func(*rapid.T){
			"createWrite": func(t *rapid.T) { // create (or truncate) and write in one go
				p := filepath.Join(pickDir(t), rapid.SampledFrom(names).Draw(t, "name"))
				data, desc := c11Content(t, "cw")
				if isSymlink(p) {
					// writing through a link changes a file outside the Spec directories ("symlink targets changing" is
					// not among the changes the statement lists, and nothing in the directory changes)
					t.Skip("the name is a symbolic link")
				}
				_ = os.WriteFile(p, data, 0o644)
				record(t, fmt.Sprintf("createWrite %s (%s)", rel(p), desc))
			},
			"rewriteInChunks": func(t *rapid.T) { // rewrite an existing file in place, in several writes
				p := pickFile(t)
				data, desc := c11Content(t, "rw")
				if isSymlink(p) {
					t.Skip("the name is a symbolic link")
				}
				f, err := os.OpenFile(p, os.O_WRONLY|os.O_TRUNC, 0o644)
				if err != nil {
					t.Skip(err.Error())
				}
				cut := 0
				if len(data) > 2 {
					cut = rapid.IntRange(1, len(data)-1).Draw(t, "cut")
				}
				_, _ = f.Write(data[:cut])
				if rapid.Bool().Draw(t, "pauseBetweenChunks") {
					time.Sleep(time.Millisecond)
				}
				_, _ = f.Write(data[cut:])
				_ = f.Close()
				record(t, fmt.Sprintf("rewriteInChunks %s (%s)", rel(p), desc))
			},
			"replaceByRename": func(t *rapid.T) { // temp file inside the directory, renamed over the name
				d := pickDir(t)
				p := filepath.Join(d, rapid.SampledFrom(names).Draw(t, "name"))
				data, desc := c11Content(t, "rr")
				tmp := filepath.Join(d, ".tmp-replace")
				_ = os.WriteFile(tmp, data, 0o644)
				_ = os.Rename(tmp, p)
				record(t, fmt.Sprintf("replaceByRename %s (%s)", rel(p), desc))
			},
			"moveIn": func(t *rapid.T) { // a complete file moved in from outside the directory
				d := pickDir(t)
				p := filepath.Join(d, rapid.SampledFrom(names).Draw(t, "name"))
				data, desc := c11Content(t, "mi")
				outSeq++
				src := filepath.Join(outside, fmt.Sprintf("src%d", outSeq))
				_ = os.WriteFile(src, data, 0o644)
				_ = os.Rename(src, p)
				record(t, fmt.Sprintf("moveIn %s (%s)", rel(p), desc))
			},
			"linkIn": func(t *rapid.T) { // a complete file hard-linked in
				d := pickDir(t)
				p := filepath.Join(d, rapid.SampledFrom(names).Draw(t, "name"))
				data, desc := c11Content(t, "li")
				outSeq++
				src := filepath.Join(outside, fmt.Sprintf("src%d", outSeq))
				_ = os.WriteFile(src, data, 0o644)
				_ = os.Remove(p)
				if err := os.Link(src, p); err != nil {
					t.Skip(err.Error())
				}
				record(t, fmt.Sprintf("linkIn %s (%s)", rel(p), desc))
			},
			"symlinkIn": func(t *rapid.T) { // a Spec name becomes a symbolic link: dangling, to a directory, or to a file outside
				d := pickDir(t)
				p := filepath.Join(d, rapid.SampledFrom(names).Draw(t, "name"))
				outSeq++
				var target, desc string
				switch rapid.IntRange(0, 2).Draw(t, "slTarget") {
				case 0:
					target, desc = filepath.Join(outside, fmt.Sprintf("no-such-file%d", outSeq)), "dangling"
				case 1:
					target, desc = outside, "to a directory"
				default:
					data, cdesc := c11Content(t, "sl")
					target, desc = filepath.Join(outside, fmt.Sprintf("src%d", outSeq)), "to "+cdesc
					_ = os.WriteFile(target, data, 0o644)
				}
				if _, err := os.Lstat(p); err != nil {
					if err := os.Symlink(target, p); err != nil { // a create event and nothing else
						t.Skip(err.Error())
					}
				} else {
					tmp := filepath.Join(outside, fmt.Sprintf("lnk%d", outSeq))
					if err := os.Symlink(target, tmp); err != nil {
						t.Skip(err.Error())
					}
					if err := os.Rename(tmp, p); err != nil { // moved in over the existing entry: a create event and nothing else
						t.Skip(err.Error())
					}
				}
				record(t, fmt.Sprintf("symlinkIn %s (%s)", rel(p), desc))
			},
			"createEmpty": func(t *rapid.T) { // a new empty file: a create event and nothing else
				d := pickDir(t)
				p := filepath.Join(d, rapid.SampledFrom(names).Draw(t, "name"))
				if _, err := os.Stat(p); err == nil {
					t.Skip("exists")
				}
				f, err := os.OpenFile(p, os.O_CREATE|os.O_EXCL|os.O_WRONLY, 0o644)
				if err != nil {
					t.Skip(err.Error())
				}
				_ = f.Close()
				record(t, fmt.Sprintf("createEmpty %s", rel(p)))
			},
			"renameAway": func(t *rapid.T) {
				p := pickFile(t)
				outSeq++
				_ = os.Rename(p, filepath.Join(outside, fmt.Sprintf("away%d", outSeq)))
				record(t, fmt.Sprintf("renameAway %s", rel(p)))
			},
			"renameInside": func(t *rapid.T) { // to another Spec name or to a non-Spec name in the same directory
				p := pickFile(t)
				to := filepath.Join(filepath.Dir(p), rapid.SampledFrom([]string{"x.json", "y.yaml", "z.json", "x.txt", "y.bak"}).Draw(t, "to"))
				if to == p {
					t.Skip("same name")
				}
				_ = os.Rename(p, to)
				record(t, fmt.Sprintf("renameInside %s -> %s", rel(p), filepath.Base(to)))
			},
			"remove": func(t *rapid.T) {
				p := pickFile(t)
				_ = os.Remove(p)
				record(t, fmt.Sprintf("remove %s", rel(p)))
			},
			"queryOnly": func(t *rapid.T) { // always enabled: a state in which every directory is missing leaves only
				// mkdirMissing, and rapid gives up on a step in which every drawn action skips
				pace := "query"
				if held {
					pace = "release+query"
					release()
				}
				_ = cache.ListDevices()
				history = append(history, c11Step{"queryOnly", pace})
				labels["op:queryOnly"] = true
			},
			"mkdirMissing": func(t *rapid.T) {
				var missing []string
				for _, d := range dirs {
					if !exists[d] {
						missing = append(missing, d)
					}
				}
				if len(missing) == 0 {
					t.Skip("no missing directory")
				}
				d := rapid.SampledFrom(missing).Draw(t, "dir")
				_ = os.MkdirAll(d, 0o755)
				exists[d] = true
				record(t, fmt.Sprintf("mkdirMissing %s", rel(d)))
			},
			"removeDir": func(t *rapid.T) {
				d := pickDir(t)
				_ = os.RemoveAll(d)
				exists[d] = false
				record(t, fmt.Sprintf("removeDir %s", rel(d)))
			},
			"renameDirAway": func(t *rapid.T) { // the directory leaves its configured path in one rename
				d := pickDir(t)
				awaySeq++
				_ = os.Rename(d, filepath.Join(root, fmt.Sprintf("away%d", awaySeq)))
				exists[d] = false
				record(t, fmt.Sprintf("renameDirAway %s", rel(d)))
			},
			"swapDirHeld": func(t *rapid.T) { // while the watcher is held off, the directory leaves and a prepared one takes its
				// place: the events of the old directory are handled when the path refers to the new one already
				d := pickDir(t)
				if !held {
					cache.Lock()
					held = true
					labels["watcher-held-off"] = true
				}
				awaySeq++
				_ = os.Rename(d, filepath.Join(root, fmt.Sprintf("away%d", awaySeq)))
				stage := filepath.Join(root, fmt.Sprintf("stage%d", awaySeq))
				_ = os.MkdirAll(stage, 0o755)
				var descs []string
				for i, n := 0, rapid.IntRange(0, 2).Draw(t, "nFiles"); i < n; i++ {
					data, desc := c11Content(t, fmt.Sprintf("sdh%d", i))
					_ = os.WriteFile(filepath.Join(stage, names[i%len(names)]), data, 0o644)
					descs = append(descs, desc)
				}
				_ = os.Rename(stage, d)
				release()
				time.Sleep(30 * time.Millisecond)
				record(t, fmt.Sprintf("swapDirHeld %s %v", rel(d), descs))
			},
			"renameDirOnto": func(t *rapid.T) { // one configured directory is renamed to the path of another, missing one
				var from, to []string
				for _, d := range dirs {
					if exists[d] {
						from = append(from, d)
					} else {
						to = append(to, d)
					}
				}
				if len(from) == 0 || len(to) == 0 {
					t.Skip("needs an existing and a missing configured directory")
				}
				a := rapid.SampledFrom(from).Draw(t, "from")
				b := rapid.SampledFrom(to).Draw(t, "to")
				if strings.HasPrefix(b, a+"/") || strings.HasPrefix(a, b+"/") {
					t.Skip("nested")
				}
				_ = os.MkdirAll(filepath.Dir(b), 0o755)
				_ = os.Rename(a, b)
				record(t, fmt.Sprintf("renameDirOnto %s -> %s", rel(a), rel(b)))
			},
			"renameDirIn": func(t *rapid.T) { // a complete directory appears at a configured path in one rename
				var missing []string
				for _, d := range dirs {
					if !exists[d] {
						missing = append(missing, d)
					}
				}
				if len(missing) == 0 {
					t.Skip("no missing directory")
				}
				d := rapid.SampledFrom(missing).Draw(t, "dir")
				awaySeq++
				stage := filepath.Join(root, fmt.Sprintf("stage%d", awaySeq))
				_ = os.MkdirAll(stage, 0o755)
				var descs []string
				for i, n := 0, rapid.IntRange(0, 2).Draw(t, "nFiles"); i < n; i++ {
					data, desc := c11Content(t, fmt.Sprintf("rdi%d", i))
					_ = os.WriteFile(filepath.Join(stage, names[i%len(names)]), data, 0o644)
					descs = append(descs, desc)
				}
				_ = os.Rename(stage, d)
				exists[d] = true
				record(t, fmt.Sprintf("renameDirIn %s %v", rel(d), descs))
			},
		}
		for k := range exclude {
			delete(actions, k)
		}
		// the very first query happens before any change (the cache was populated at creation)
		_ = cache.ListDevices()
		t.Repeat(actions)
		release()
		ok, got, want, took := converge(cache, dirs, 10*time.Second)
		if !ok {
			// diagnosis: which inodes are watched, which inodes the configured paths have now, the directory-level errors
			diagPaths := append([]string{}, dirs...)
			if ents, err := os.ReadDir(root); err == nil {
				for _, e := range ents {
					if strings.HasPrefix(e.Name(), "away") {
						diagPaths = append(diagPaths, filepath.Join(root, e.Name()))
					}
				}
			}
			t.Fatalf("C11 violated: 10 s after the last change the auto-refresh cache still differs from a cache freshly built from the directories\nhistory: %s\ncache:\n%s\nfresh:\n%s\ndirectory errors: %v\nwatches:\n%s", canonJSON(history), got, want, cache.GetSpecDirErrors(), obs.WatchDiag(diagPaths))
		}
		createOnly := false
		for _, s := range history {
			if strings.HasPrefix(s.Op, "moveIn") || strings.HasPrefix(s.Op, "linkIn") || strings.HasPrefix(s.Op, "symlinkIn") || strings.HasPrefix(s.Op, "createEmpty") || strings.HasPrefix(s.Op, "removeDir") || strings.HasPrefix(s.Op, "mkdirMissing") || strings.HasPrefix(s.Op, "renameDir") || strings.HasPrefix(s.Op, "swapDir") {
				createOnly = true
			}
		}
		var ls []string
		for k := range labels {
			ls = append(ls, k)
		}
		if len(history) > 0 {
			ls = append(ls, "last:"+strings.SplitN(history[len(history)-1].Op, " ", 2)[0])
		}
		if took > time.Second {
			ls = append(ls, "converged-after-more-than-1s")
		}
		rec.Add("steps", int64(len(history)))
		rec.Case(createOnly || len(history) >= 4, canonJSON(history), func() any { return map[string]any{"dirs": nDirs, "history": history, "final": want} }, ls...)
	}
}

// TestC11DirChurn: the same machine restricted to directory-level churn (directories created, removed,
// renamed away, renamed into place) plus the cheapest file actions, so that histories are dense in the
// transitions in which a watch has to be dropped and re-added.
func TestC11DirChurn(t *testing.T) {
	ex := map[string]bool{"createWrite": true, "rewriteInChunks": true, "replaceByRename": true, "linkIn": true, "renameAway": true, "renameInside": true, "remove": true}
	rapid.Check(t, propC11(stats.For("C11", "dirchurn"), newScratch(t), ex))
}

// TestC11Sched: directory-level churn under harness-owned schedules only: every gap either holds the watcher
// goroutine off, releases it, or queries (no wall-clock pacing at all).
func TestC11Sched(t *testing.T) {
	ex := map[string]bool{"createWrite": true, "rewriteInChunks": true, "replaceByRename": true, "linkIn": true, "renameAway": true, "renameInside": true, "remove": true}
	rapid.Check(t, propC11Paced(stats.For("C11", "sched"), newScratch(t), ex, []string{"none", "none", "hold", "hold", "release", "release+settle", "release+settle", "query"}))
}

func TestC11Rapid(t *testing.T) {
	rapid.Check(t, propC11(stats.For("C11", "rapid"), newScratch(t), nil))
}

// c11Script is a fixed history with explicit pacing (regression files).
type c11Script struct {
	Dirs  []string   `json:"dirs"` // configured directories, relative to the sandbox root
	Steps []c11SStep `json:"steps"`
}

type c11SStep struct {
	Op      string `json:"op"` // start, mkdir, rmdir, write, create-empty, movein, link, remove, rename, query, lock, unlock, sleep
	Path    string `json:"path,omitempty"`
	To      string `json:"to,omitempty"`
	Content string `json:"content,omitempty"` // "valid:<dev>", "invalid", "empty"
	Ms      int    `json:"ms,omitempty"`
}

func c11ScriptContent(c string, n int) []byte {
	switch {
	case strings.HasPrefix(c, "valid:"):
		return []byte(fmt.Sprintf(`{"cdiVersion":"0.3.0","kind":"v1.com/gpu","devices":[{"name":"%s","containerEdits":{"env":["M=%d"]}}]}`, c[6:], n))
	case c == "invalid":
		return []byte("{bad")
	}
	return []byte{}
}

func runC11Script(root string, sc c11Script) (ok bool, got, want string) {
	var dirs []string
	for _, d := range sc.Dirs {
		dirs = append(dirs, filepath.Join(root, d))
	}
	outside := filepath.Join(root, "outside")
	_ = os.MkdirAll(outside, 0o755)
	// directories that a "mkdir" step at position 0.. creates before the cache exists are created by the script itself
	var cache *cdi.Cache
	for i, st := range sc.Steps {
		p, to := filepath.Join(root, st.Path), filepath.Join(root, st.To)
		switch st.Op {
		case "start":
			cache, _ = cdi.NewCache(cdi.WithSpecDirs(dirs...), cdi.WithAutoRefresh(true))
			for _, e := range cache.GetSpecDirErrors() {
				if strings.Contains(e.Error(), "failed to create watcher") {
					_ = cache.Configure(cdi.WithAutoRefresh(false))
					return false, "", "VERIF-UNDECIDED no inotify instance left in this environment"
				}
			}
		case "mkdir":
			_ = os.MkdirAll(p, 0o755)
		case "rmdir":
			_ = os.RemoveAll(p)
		case "write":
			_ = os.WriteFile(p, c11ScriptContent(st.Content, i), 0o644)
		case "create-empty":
			f, err := os.OpenFile(p, os.O_CREATE|os.O_EXCL|os.O_WRONLY, 0o644)
			if err == nil {
				_ = f.Close()
			}
		case "movein", "link":
			src := filepath.Join(outside, fmt.Sprintf("src%d", i))
			_ = os.WriteFile(src, c11ScriptContent(st.Content, i), 0o644)
			if st.Op == "movein" {
				_ = os.Rename(src, p)
			} else {
				_ = os.Remove(p)
				_ = os.Link(src, p)
			}
		case "remove":
			_ = os.Remove(p)
		case "rename":
			_ = os.Rename(p, to)
		case "query":
			_ = cache.ListDevices()
		case "lock": // hold the cache mutex: the watcher goroutine cannot handle events until "unlock"
			cache.Lock()
		case "unlock":
			cache.Unlock()
		case "sleep":
			time.Sleep(time.Duration(st.Ms) * time.Millisecond)
		}
	}
	if cache == nil {
		return false, "", "script has no start step"
	}
	defer cache.Configure(cdi.WithAutoRefresh(false))
	ok, got, want, _ = converge(cache, dirs, 10*time.Second)
	return ok, got, want
}

func TestC11Regress(t *testing.T) {
	rec := stats.For("C11", "regress")
	sc := newScratch(t)
	for _, rc := range loadRegressions(t, "C11") {
		var s c11Script
		if err := json.Unmarshal(rc.Case, &s); err != nil {
			t.Fatalf("bad C11 regression: %v", err)
		}
		reps := envInt("VERIF_C11_REPLAY_REPS", 3)
		for i := 0; i < reps; i++ {
			root := sc.dir()
			ok, got, want := runC11Script(root, s)
			os.RemoveAll(root)
			if !ok && strings.HasPrefix(want, "VERIF-UNDECIDED") {
				t.Fatalf("%s", want)
			}
			if !ok {
				p := saveReplay("C11", "script", s)
				t.Fatalf("C11 violated on regression [%s]: 10 s after the last change the cache still differs from a fresh one\ncache:\n%s\nfresh:\n%s\nreplay: %s", rc.Note, got, want, p)
			}
		}
		rec.Case(true, canonJSON(s), func() any { return s }, "regression")
	}
}

// TestC11ConfigureRace: a change that lands while NewCache / Configure is still
// scanning must not be lost (the watch has to exist before the scan starts).
func TestC11ConfigureRace(t *testing.T) {
	rec := stats.For("C11", "configure-race")
	sc := newScratch(t)
	root := sc.dir()
	dir := filepath.Join(root, "many")
	stage := filepath.Join(root, "stage")
	_ = os.MkdirAll(dir, 0o755)
	_ = os.MkdirAll(stage, 0o755)
	nFiles := envInt("VERIF_C11_RACE_FILES", 300)
	doc := func(i, marker int) []byte {
		return []byte(fmt.Sprintf(`{"cdiVersion":"0.3.0","kind":"v1.com/gpu","devices":[{"name":"d%04d","containerEdits":{"env":["M=%d"]}}]}`, i, marker))
	}
	for i := 0; i < nFiles; i++ {
		_ = os.WriteFile(filepath.Join(dir, fmt.Sprintf("f%04d.json", i)), doc(i, 0), 0o644)
	}
	// how long does one scan take here?
	t0 := time.Now()
	probe, _ := cdi.NewCache(cdi.WithSpecDirs(dir), cdi.WithAutoRefresh(false))
	_ = probe.Refresh()
	scan := time.Since(t0) / 2
	iters := envInt("VERIF_C11_RACE_ITERS", 16)
	idx, _ := shard()
	waitForInotify()
	cache, _ := cdi.NewCache(cdi.WithSpecDirs(dir), cdi.WithAutoRefresh(true))
	undecidedIfNoInotify(t, cache)
	defer func() { _ = cache.Configure(cdi.WithAutoRefresh(false)) }()
	for k := 1; k <= iters; k++ {
		// deterministic spread of delays over the scan (and a little beyond it)
		delay := time.Duration(int64(scan) * int64((k*7+idx*3)%20) / 16)
		mode := []string{"Configure", "NewCache"}[k%2]
		victim := (k * 13) % 8 // one of the first files in scan order: already scanned when the change lands
		done := make(chan struct{})
		go func() {
			defer close(done)
			time.Sleep(delay)
			tmp := filepath.Join(stage, "next.json")
			_ = os.WriteFile(tmp, doc(victim, k), 0o644)
			_ = os.Rename(tmp, filepath.Join(dir, fmt.Sprintf("f%04d.json", victim)))
		}()
		c := cache
		if mode == "Configure" {
			_ = cache.Configure(cdi.WithSpecDirs(dir), cdi.WithAutoRefresh(true))
		} else {
			waitForInotify()
			c, _ = cdi.NewCache(cdi.WithSpecDirs(dir), cdi.WithAutoRefresh(true))
			undecidedIfNoInotify(t, c)
		}
		<-done
		ok, _, _, _ := converge(c, []string{dir}, 10*time.Second)
		dev := c.GetDevice(fmt.Sprintf("v1.com/gpu=d%04d", victim))
		if mode == "NewCache" {
			_ = c.Configure(cdi.WithAutoRefresh(false))
		}
		if !ok {
			got := "<nil>"
			if dev != nil {
				got = fmt.Sprint(dev.ContainerEdits.Env)
			}
			p := saveReplay("C11", "configure-race", map[string]any{"mode": mode, "delayMicros": delay.Microseconds(), "scanMicros": scan.Microseconds(), "files": nFiles})
			t.Fatalf("C11 violated: f%04d.json was replaced %v after %s started (one scan takes about %v); 10 s later the cache still has %s, the file says M=%d: the change was lost between the scan and the set-up of the watch\nreplay: %s",
				victim, delay, mode, scan, got, k, p)
		}
		rec.Case(true, fmt.Sprintf("%s/%d/%d", mode, delay.Microseconds(), victim), func() any {
			return map[string]any{"mode": mode, "delayMicros": delay.Microseconds(), "scanMicros": scan.Microseconds(), "files": nFiles}
		}, "race:"+mode)
	}
}

// TestC11AddRace: the directory is created and removed / renamed away in a
// tight loop while another goroutine keeps querying (every query and every
// event tries to watch the directory again), so that watches get added to a
// directory that is leaving at that very moment. Then a complete directory is
// renamed into place, nothing changes any more, and the cache must converge.
// (F19: a watch added to a directory that was already gone from the path, or
// recorded by fsnotify under a stale entry, left the directory marked as
// watched for good.)
func TestC11AddRace(t *testing.T) {
	rec := stats.For("C11", "addrace")
	sc := newScratch(t)
	rapid.Check(t, func(t *rapid.T) {
		root := sc.dir()
		defer os.RemoveAll(root)
		d := filepath.Join(root, "d")
		other := filepath.Join(root, "other")
		_ = os.MkdirAll(other, 0o755)
		dirs := []string{other, d}
		if rapid.Bool().Draw(t, "first") {
			dirs = []string{d, other}
		}
		iters := rapid.IntRange(20, 300).Draw(t, "iterations")
		mix := rapid.SampledFrom([]string{"rename", "rmdir", "alternate"}).Draw(t, "leaves")
		queriers := rapid.IntRange(1, 3).Draw(t, "queriers")
		waitForInotify()
		cache, _ := cdi.NewCache(cdi.WithSpecDirs(dirs...), cdi.WithAutoRefresh(true))
		defer cache.Configure(cdi.WithAutoRefresh(false))
		undecidedIfNoInotify(t, cache)
		var stop atomic.Bool
		done := make(chan struct{}, queriers)
		for q := 0; q < queriers; q++ {
			go func() {
				for !stop.Load() {
					_ = cache.ListDevices()
				}
				done <- struct{}{}
			}()
		}
		for i := 0; i < iters; i++ {
			_ = os.Mkdir(d, 0o755)
			if mix == "rename" || (mix == "alternate" && i%2 == 0) {
				_ = os.Rename(d, filepath.Join(root, fmt.Sprintf("away%d", i)))
			} else {
				_ = os.Remove(d)
			}
		}
		stop.Store(true)
		for q := 0; q < queriers; q++ {
			<-done
		}
		stage := filepath.Join(root, "stage")
		_ = os.MkdirAll(stage, 0o755)
		_ = os.WriteFile(filepath.Join(stage, "x.json"), c11ScriptContent("valid:a", iters), 0o644)
		_ = os.Rename(stage, d)
		ok, got, want, _ := converge(cache, dirs, 10*time.Second)
		c := map[string]any{"iterations": iters, "leaves": mix, "queriers": queriers, "dirFirst": dirs[0] == d}
		if !ok {
			t.Fatalf("C11 violated: a directory created and %s %d times under concurrent queries, then a complete directory renamed into place: 10 s later the auto-refresh cache still differs from a fresh one\ncache:\n%s\nfresh:\n%s\ndirectory errors: %v\nwatches:\n%s", mix, iters, got, want, cache.GetSpecDirErrors(), obs.WatchDiag([]string{d}))
		}
		rec.Case(iters >= 50, canonJSON(c), func() any { return c }, "addrace", "leaves:"+mix)
	})
}
