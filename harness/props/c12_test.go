package props

import (
	"encoding/json"
	"fmt"
	"os"
	"path/filepath"
	"runtime"
	"sort"
	"strings"
	"sync"
	"sync/atomic"
	"testing"
	"time"

	oci "github.com/opencontainers/runtime-spec/specs-go"
	"pgregory.net/rapid"
	"tags.cncf.io/container-device-interface/pkg/cdi"
	specs "tags.cncf.io/container-device-interface/specs-go"
	"tags.cncf.io/container-device-interface/verifharness/stats"
)

const c12Kind = "v.com/cls"

func c12StateDoc(tag string, devs ...string) []byte {
	s := &specs.Spec{Version: "0.3.0", Kind: c12Kind, ContainerEdits: specs.ContainerEdits{Env: []string{"S=" + tag}}}
	if tag == "B" {
		// the two states differ in length by a few hundred bytes: a publication that is not atomic shows as one
		// state followed by the tail of the other, not only as an empty file
		for i := 0; i < 24; i++ {
			s.ContainerEdits.Env = append(s.ContainerEdits.Env, fmt.Sprintf("M_pad%02d=%s", i, tag))
		}
	}
	for _, d := range devs {
		s.Devices = append(s.Devices, specs.Device{Name: d, ContainerEdits: specs.ContainerEdits{Env: []string{"M_" + d + "=" + tag}}})
	}
	b, _ := json.Marshal(s)
	return b
}

var (
	c12ListA = []string{c12Kind + "=d1", c12Kind + "=d2", c12Kind + "=d3"}
	c12ListB = []string{c12Kind + "=d2", c12Kind + "=d3", c12Kind + "=d4"}
)

// c12Program is one generated concurrent program.
type c12Program struct {
	Auto       bool       `json:"auto"`
	GoMaxProcs int        `json:"gomaxprocs"`
	Threads    [][]string `json:"threads"`
	Yield      int        `json:"yieldEvery"`
	Switches   int        `json:"switches"`
	ViaWrite   bool       `json:"switchViaWriteSpec"`  // the switcher publishes the two states with Cache.WriteSpec instead of write+rename
	Switchers  int        `json:"switchers,omitempty"` // goroutines publishing the two states under the one name at the same time (0 = 1)
}

var c12Ops = []string{"ListDevices", "GetDevice", "ListVendors", "ListClasses", "GetVendorSpecs", "GetSpecErrors", "GetErrors", "GetSpecDirectories",
	"GetSpecDirErrors", "InjectBoth", "InjectEdge", "Refresh", "ConfigureDirs", "ConfigureAutoOn", "ConfigureAutoOff", "WriteSpec", "RemoveSpec",
	"DeviceApplyEdits", "SpecApplyEdits", "DefaultRefresh", "DefaultInject", "DefaultGetErrors"}

func c12OtherName(tid int) string {
	if tid%2 == 1 {
		return fmt.Sprintf("other-%d.json", tid)
	}
	return fmt.Sprintf("other-%d", tid)
}

func genC12(t *rapid.T) c12Program {
	p := c12Program{Auto: rapid.Bool().Draw(t, "auto"), GoMaxProcs: rapid.SampledFrom([]int{2, 4, 16}).Draw(t, "gomaxprocs"),
		Yield: rapid.SampledFrom([]int{0, 1, 3, 10}).Draw(t, "yieldEvery"), Switches: rapid.IntRange(20, 120).Draw(t, "switches"),
		ViaWrite: rapid.Bool().Draw(t, "switchViaWriteSpec")}
	p.Switchers = rapid.SampledFrom([]int{1, 1, 2, 3}).Draw(t, "switchers")
	n := rapid.IntRange(3, 8).Draw(t, "threads")
	for i := 0; i < n; i++ {
		// each thread has a small repertoire repeated many times: pairs of operations overlap often
		rep := rapid.SliceOfN(rapid.SampledFrom(c12Ops), 1, 5).Draw(t, fmt.Sprintf("repertoire%d", i))
		length := rapid.IntRange(50, 400).Draw(t, fmt.Sprintf("length%d", i))
		var ops []string
		for len(ops) < length {
			ops = append(ops, rep...)
		}
		p.Threads = append(p.Threads, ops[:length])
	}
	return p
}

type c12Env struct {
	base string
	seq  int
}

// runC12 executes one program and returns "" or the description of a snapshot
// inconsistency / deadlock. Data races are reported by the race detector
// (the process then exits with the report).
func (env *c12Env) run(p c12Program) (msg string, mutators int) {
	env.seq++
	root := filepath.Join(env.base, fmt.Sprintf("p%d", env.seq%8))
	_ = os.RemoveAll(root)
	dir, dir2, stage := filepath.Join(root, "specs"), filepath.Join(root, "second"), filepath.Join(root, "stage")
	for _, d := range []string{dir, dir2, stage} {
		_ = os.MkdirAll(d, 0o755)
	}
	defer os.RemoveAll(root)
	docA, docB := c12StateDoc("A", "d1", "d2", "d3"), c12StateDoc("B", "d2", "d3", "d4")
	_ = os.WriteFile(filepath.Join(dir, "state.json"), docA, 0o644)
	old := runtime.GOMAXPROCS(p.GoMaxProcs)
	defer runtime.GOMAXPROCS(old)

	cache, _ := cdi.NewCache(cdi.WithSpecDirs(dir), cdi.WithAutoRefresh(p.Auto))
	var failure atomic.Value
	failf := func(format string, a ...any) { failure.CompareAndSwap(nil, fmt.Sprintf(format, a...)) }
	var stop atomic.Bool
	var lastProgress atomic.Int64
	lastProgress.Store(time.Now().UnixNano())
	var wg, bg sync.WaitGroup

	// the switchers: each atomically replaces the Spec file, alternating the two states (several of them publish
	// under the one name at the same time: every single publication is atomic, so the directory still only ever
	// switches between the two states)
	nSwitchers := p.Switchers
	if nSwitchers < 1 {
		nSwitchers = 1
	}
	for sw := 0; sw < nSwitchers; sw++ {
		bg.Add(1)
		go func(sw int) {
			defer bg.Done()
			var specA, specB specs.Spec
			_ = json.Unmarshal(docA, &specA)
			_ = json.Unmarshal(docB, &specB)
			writer, _ := cdi.NewCache(cdi.WithSpecDirs(dir), cdi.WithAutoRefresh(false))
			for i := 0; i < p.Switches && !stop.Load(); i++ {
				doc, sp := docB, &specB
				if (i+sw)%2 == 1 {
					doc, sp = docA, &specA
				}
				if p.ViaWrite {
					// publication by the library itself must be just as atomic for concurrent queries
					if err := writer.WriteSpec(sp, "state.json"); err != nil && nSwitchers == 1 {
						failf("the switcher's WriteSpec failed: %v", err)
					}
					time.Sleep(time.Duration(200+i%7*100) * time.Microsecond)
					continue
				}
				tmp := filepath.Join(stage, fmt.Sprintf("next%d.json", sw))
				_ = os.WriteFile(tmp, doc, 0o644)
				_ = os.Rename(tmp, filepath.Join(dir, "state.json"))
				time.Sleep(time.Duration(200+i%7*100) * time.Microsecond)
			}
		}(sw)
	}
	if !p.Auto {
		bg.Add(1)
		go func() { // manual caches get a refresher
			defer bg.Done()
			for !stop.Load() {
				_ = cache.Refresh()
				runtime.Gosched()
			}
		}()
	}
	other := &specs.Spec{Version: "0.3.0", Kind: "other.org/x", Devices: []specs.Device{{Name: "w1", ContainerEdits: specs.ContainerEdits{Env: []string{"W=1"}}}}}
	filterKind := func(l []string) []string {
		var out []string
		for _, d := range l {
			if strings.HasPrefix(d, c12Kind+"=") {
				out = append(out, d)
			}
		}
		return out
	}
	markersOf := func(env []string) map[string]bool {
		m := map[string]bool{}
		for _, e := range env {
			if strings.HasPrefix(e, "M_") || strings.HasPrefix(e, "S=") {
				m[e[strings.IndexByte(e, '=')+1:]] = true
			}
		}
		return m
	}
	doOp := func(op string, tid, i int) {
		switch op {
		case "ListDevices":
			got := filterKind(cache.ListDevices())
			if j := strings.Join(got, " "); j != strings.Join(c12ListA, " ") && j != strings.Join(c12ListB, " ") {
				failf("ListDevices returned %v, which is neither state A %v nor state B %v", got, c12ListA, c12ListB)
			}
		case "GetDevice":
			q := c12Kind + "=" + []string{"d1", "d2", "d3", "d4"}[(tid+i)%4]
			dev := cache.GetDevice(q)
			if dev == nil {
				return
			}
			sp := dev.GetSpec()
			if sp.GetDevice(dev.Name) != dev {
				failf("GetDevice(%s): the device is not the one its own Spec holds under that name (half-built index)", q)
			}
			tags := map[string]bool{}
			for _, d := range sp.Devices {
				for t := range markersOf(d.ContainerEdits.Env) {
					tags[t] = true
				}
			}
			for t := range markersOf(sp.ContainerEdits.Env) {
				tags[t] = true
			}
			if len(tags) != 1 {
				failf("GetDevice(%s): Spec mixes states %v", q, tags)
			}
		case "ListVendors":
			_ = cache.ListVendors()
		case "ListClasses":
			_ = cache.ListClasses()
		case "GetVendorSpecs":
			for _, s := range cache.GetVendorSpecs("v.com") {
				_ = cache.GetSpecErrors(s)
			}
		case "GetSpecErrors":
			if d := cache.GetDevice(c12Kind + "=d2"); d != nil {
				_ = cache.GetSpecErrors(d.GetSpec())
			}
		case "GetErrors":
			for _, errs := range cache.GetErrors() {
				for _, e := range errs {
					_ = e.Error()
				}
			}
		case "GetSpecDirectories":
			_ = cache.GetSpecDirectories()
		case "GetSpecDirErrors":
			for _, e := range cache.GetSpecDirErrors() {
				_ = e.Error()
			}
		case "InjectBoth":
			o := &oci.Spec{Process: &oci.Process{Env: []string{"KEEP=1"}}}
			unres, err := cache.InjectDevices(o, c12Kind+"=d2", c12Kind+"=d3")
			if err != nil || unres != nil {
				failf("InjectDevices(d2,d3) failed although both states define them: %v %v", unres, err)
				return
			}
			if tags := markersOf(o.Process.Env); len(tags) != 1 {
				failf("InjectDevices(d2,d3) produced a mixture of states: env %v", o.Process.Env)
			}
		case "InjectEdge":
			o := &oci.Spec{Process: &oci.Process{Env: []string{"KEEP=1"}}}
			unres, err := cache.InjectDevices(o, c12Kind+"=d1", c12Kind+"=d4")
			if err == nil || len(unres) != 1 || (unres[0] != c12Kind+"=d1" && unres[0] != c12Kind+"=d4") {
				failf("InjectDevices(d1,d4): exactly one of them exists in each state, got unresolved %v, err %v", unres, err)
			}
			if len(o.Process.Env) != 1 {
				failf("InjectDevices(d1,d4) failed but modified the OCI spec: %v", o.Process.Env)
			}
		case "Refresh":
			_ = cache.Refresh()
		case "ConfigureDirs":
			if (tid+i)%2 == 0 {
				_ = cache.Configure(cdi.WithSpecDirs(dir, dir2))
			} else {
				_ = cache.Configure(cdi.WithSpecDirs(dir))
			}
		case "ConfigureAutoOn":
			_ = cache.Configure(cdi.WithAutoRefresh(true))
		case "ConfigureAutoOff":
			_ = cache.Configure(cdi.WithAutoRefresh(false))
		case "WriteSpec":
			// a Spec of another kind, into whatever directory currently has the highest priority
			// (odd threads write the JSON encoding, even ones the default YAML)
			_ = cache.WriteSpec(other, c12OtherName(tid))
		case "RemoveSpec":
			_ = cache.RemoveSpec(c12OtherName(tid))
		case "DeviceApplyEdits":
			if d := cache.GetDevice(c12Kind + "=d3"); d != nil {
				o := &oci.Spec{}
				_ = d.ApplyEdits(o)
			}
		case "SpecApplyEdits":
			if d := cache.GetDevice(c12Kind + "=d2"); d != nil {
				o := &oci.Spec{}
				_ = d.GetSpec().ApplyEdits(o)
			}
		case "DefaultRefresh":
			_ = cdi.Refresh()
		case "DefaultInject":
			_, _ = cdi.InjectDevices(&oci.Spec{}, "no.such/device=x")
		case "DefaultGetErrors":
			_ = cdi.GetErrors()
		}
	}
	for tid, ops := range p.Threads {
		for _, op := range ops {
			if strings.HasPrefix(op, "Configure") || op == "WriteSpec" || op == "RemoveSpec" {
				mutators++
				break
			}
		}
		wg.Add(1)
		go func(tid int, ops []string) {
			defer wg.Done()
			for i, op := range ops {
				if failure.Load() != nil {
					return
				}
				doOp(op, tid, i)
				lastProgress.Store(time.Now().UnixNano())
				if p.Yield > 0 && i%p.Yield == 0 {
					runtime.Gosched()
				}
			}
		}(tid, ops)
	}
	done := make(chan struct{})
	go func() { wg.Wait(); close(done) }()
	watchdog := time.NewTicker(time.Second)
	defer watchdog.Stop()
wait:
	for {
		select {
		case <-done:
			break wait
		case <-watchdog.C:
			if time.Since(time.Unix(0, lastProgress.Load())) > 30*time.Second {
				buf := make([]byte, 1<<20)
				n := runtime.Stack(buf, true)
				stop.Store(true)
				return "no operation returned for 30 s (deadlock?)\n" + string(buf[:n]), mutators
			}
		}
	}
	stop.Store(true)
	bg.Wait()
	_ = cache.Configure(cdi.WithAutoRefresh(false)) // not deferred: after a deadlock it would hang as well
	if f := failure.Load(); f != nil {
		return f.(string), mutators
	}
	return "", mutators
}

func TestC12Rapid(t *testing.T) {
	rec := stats.For("C12", "rapid")
	env := &c12Env{base: t.TempDir()}
	cur := filepath.Join(os.Getenv("VERIF_REPLAY_DIR"), fmt.Sprintf("C12-current-%d.json", os.Getpid()))
	rapid.Check(t, func(t *rapid.T) {
		p := genC12(t)
		// the race detector ends the process at the first report: leave the program where the driver finds it
		if os.Getenv("VERIF_REPLAY_DIR") != "" {
			b, _ := json.Marshal(map[string]any{"prop": "C12", "kind": "program", "case": p})
			_ = os.WriteFile(cur, b, 0o644)
			fmt.Printf("current program: %s\n", cur)
		}
		msg, mutators := env.run(p)
		if msg != "" {
			t.Fatalf("C12 violated: %s\nprogram: %s\nreplay: %s", msg, canonJSON(p), cur)
		}
		pairs := map[string]bool{}
		for _, ops := range p.Threads {
			for _, op := range ops[:min(len(ops), 6)] {
				pairs["op:"+op] = true
			}
		}
		var labels []string
		for k := range pairs {
			labels = append(labels, k)
		}
		sort.Strings(labels)
		if p.Auto {
			labels = append(labels, "auto-refresh")
		} else {
			labels = append(labels, "manual-with-refresher")
		}
		labels = append(labels, fmt.Sprintf("gomaxprocs-%d", p.GoMaxProcs))
		if p.ViaWrite {
			labels = append(labels, "switch-via-WriteSpec")
		}
		if p.Switchers > 1 {
			labels = append(labels, "concurrent-publishers-of-one-name")
			if p.ViaWrite {
				labels = append(labels, "concurrent-WriteSpec-of-one-name")
			}
		}
		rec.Case(mutators > 0, canonJSON(p), func() any { return p }, labels...)
	})
	_ = os.Remove(cur)
}

func TestC12Regress(t *testing.T) {
	rec := stats.For("C12", "regress")
	env := &c12Env{base: t.TempDir()}
	for _, rc := range loadRegressions(t, "C12") {
		if rc.Kind == "churn" {
			// not a program: the churn stress is simply run again
			TestC12Churn(t)
			continue
		}
		var p c12Program
		if err := json.Unmarshal(rc.Case, &p); err != nil {
			t.Fatalf("bad C12 regression: %v", err)
		}
		reps := envInt("VERIF_C12_REPLAY_REPS", 3)
		for i := 0; i < reps; i++ {
			if msg, _ := env.run(p); msg != "" {
				t.Fatalf("C12 violated on regression [%s]: %s", rc.Note, msg)
			}
		}
		rec.Case(true, canonJSON(p), func() any { return p }, "regression")
	}
}

// TestC12Churn: Spec files that sort before an untouched one are written and
// removed by several goroutines while the main goroutine refreshes and queries
// (manual mode: every Refresh is a scan racing with the removals). The devices
// of the untouched file must resolve in every single result - a file that
// vanishes between being listed and being read concerns that file only - and
// an injection of them must always succeed completely. Race-detector build.
func TestC12Churn(t *testing.T) {
	rec := stats.For("C12", "churn")
	dir := filepath.Join(t.TempDir(), "specs")
	_ = os.MkdirAll(dir, 0o755)
	stable := []byte(`{"cdiVersion":"0.6.0","kind":"stable.org/dev","devices":[{"name":"s0","containerEdits":{"env":["S=0"]}},{"name":"s1","containerEdits":{"env":["S=1"]}}]}`)
	if err := os.WriteFile(filepath.Join(dir, "zzz-stable.json"), stable, 0o644); err != nil {
		t.Fatal(err)
	}
	cache, _ := cdi.NewCache(cdi.WithSpecDirs(dir), cdi.WithAutoRefresh(false))
	writers := envInt("VERIF_C12_CHURN_WRITERS", 6)
	budget := time.Duration(envInt("VERIF_C12_CHURN_MS", 6000)) * time.Millisecond
	var stop atomic.Bool
	var wg sync.WaitGroup
	var written atomic.Int64
	for w := 0; w < writers; w++ {
		wg.Add(1)
		go func(w int) {
			defer wg.Done()
			wc, _ := cdi.NewCache(cdi.WithSpecDirs(dir), cdi.WithAutoRefresh(false))
			spec := &specs.Spec{Version: "0.6.0", Kind: fmt.Sprintf("churn%d.org/dev", w), Devices: []specs.Device{{Name: "c", ContainerEdits: specs.ContainerEdits{Env: []string{"C=1"}}}}}
			for i := 0; !stop.Load(); i++ {
				name := fmt.Sprintf("aaa-%d-%d", w, i%3)
				if i%2 == 1 {
					name += ".json"
				}
				_ = wc.WriteSpec(spec, name)
				written.Add(1)
				_ = wc.RemoveSpec(name)
			}
		}(w)
	}
	start := time.Now()
	rounds := 0
	var failure string
	for time.Since(start) < budget && failure == "" {
		rounds++
		_ = cache.Refresh()
		got := map[string]bool{}
		for _, d := range cache.ListDevices() {
			got[d] = true
		}
		if !got["stable.org/dev=s0"] || !got["stable.org/dev=s1"] {
			failure = fmt.Sprintf("after refresh %d the devices of the untouched file zzz-stable.json are missing from ListDevices (%d devices listed): a result that reflects no state the directory was ever in", rounds, len(got))
			break
		}
		o := &oci.Spec{}
		if unres, err := cache.InjectDevices(o, "stable.org/dev=s0", "stable.org/dev=s1"); err != nil || len(unres) != 0 {
			failure = fmt.Sprintf("after refresh %d the devices of the untouched file zzz-stable.json do not inject: unresolved %v, error %v", rounds, unres, err)
		}
	}
	stop.Store(true)
	wg.Wait()
	if failure != "" {
		p := saveReplay("C12", "churn", map[string]any{"writers": writers, "rounds": rounds})
		t.Fatalf("C12 violated: %s\n%d writers writing and removing Spec files that sort before it, %d files written so far\nreplay: %s", failure, writers, written.Load(), p)
	}
	rec.Add("refreshes", int64(rounds))
	rec.Add("files-written-and-removed", written.Load())
	c := map[string]any{"writers": writers, "shard": os.Getenv("VERIF_SHARD")}
	rec.Case(rounds > 100, canonJSON(c), func() any {
		return map[string]any{"writers": writers, "refreshes": rounds, "filesWrittenAndRemoved": written.Load()}
	}, "churn")
}
