package props

import (
	"encoding/json"
	"fmt"
	"os"
	"path/filepath"
	"sort"
	"strings"
	specs "tags.cncf.io/container-device-interface/specs-go"
	"testing"
	"time"

	"pgregory.net/rapid"
	"tags.cncf.io/container-device-interface/pkg/cdi"
	"tags.cncf.io/container-device-interface/verifharness/layout"
	"tags.cncf.io/container-device-interface/verifharness/stats"
)

// Directory faults are pool entries that do not exist as directories but
// whose path is occupied by something else.
const (
	dfRegular  = "fregular"  // the configured path is a regular file
	dfAncestor = "afile/sub" // an ancestor of the configured path is a regular file
	dfSymlink  = "flink"     // the configured path is a symbolic link to a directory
	dfMissing  = "nothing"   // the configured path does not exist
)

type c13State struct {
	l         *layout.Layout
	dirFaults map[int]string // pool index -> fault kind
	permDirs  map[int]string // pool index -> permission fault (unprivileged variant)
	usedNames map[string]bool
}

// addDirFault appends a faulty directory to the pool and inserts it into the
// slot list at position at.
func (s *c13State) addDirFault(kind string, at int) error {
	l := s.l
	var err error
	switch kind {
	case dfRegular:
		err = os.WriteFile(filepath.Join(l.Root, dfRegular), []byte("not a directory"), 0o644)
	case dfAncestor:
		err = os.WriteFile(filepath.Join(l.Root, "afile"), []byte("not a directory"), 0o644)
	case dfSymlink:
		err = os.Symlink(l.Path(0), filepath.Join(l.Root, dfSymlink))
	}
	if err != nil {
		return err
	}
	l.Pool = append(l.Pool, &layout.Dir{Name: kind, Exists: false, Files: map[string]*layout.File{}, Subdirs: map[string]map[string]*layout.File{}})
	idx := len(l.Pool) - 1
	s.dirFaults[idx] = kind
	l.Slots = append(l.Slots[:at], append([]int{idx}, l.Slots[at:]...)...)
	l.Spelling = append(l.Spelling[:at], append([]string{l.Path(idx)}, l.Spelling[at:]...)...)
	return nil
}

// freshNames returns up to n qualified names of the pools not used by any file.
func (s *c13State) freshNames(t *rapid.T) (kind string, devs []string) {
	byKind := map[string][]string{}
	var kinds []string
	for _, q := range layout.AllNames() {
		if !s.usedNames[q] {
			k := q[:strings.IndexByte(q, '=')]
			if len(byKind[k]) == 0 {
				kinds = append(kinds, k)
			}
			byKind[k] = append(byKind[k], q[strings.IndexByte(q, '=')+1:])
		}
	}
	if len(kinds) == 0 {
		return "", nil
	}
	kind = rapid.SampledFrom(kinds).Draw(t, "freshKind")
	devs = byKind[kind]
	n := rapid.IntRange(1, len(devs)).Draw(t, "freshN")
	return kind, devs[:n]
}

func (s *c13State) markUsed() {
	s.usedNames = map[string]bool{}
	for _, d := range s.l.Pool {
		for _, f := range d.Files {
			if f.Spec != nil {
				for _, dv := range f.Spec.Devices {
					s.usedNames[f.Spec.Kind+"="+dv.Name] = true
				}
			}
		}
		for _, sub := range d.Subdirs {
			for _, f := range sub {
				for _, dv := range f.Spec.Devices {
					s.usedNames[f.Spec.Kind+"="+dv.Name] = true
				}
			}
		}
	}
}

// c13Check evaluates the four clauses of C13 on a refreshed cache.
func c13Check(cache *cdi.Cache, s *c13State, refreshErr error) string {
	return c13CheckView(layout.Observe(cache), s, refreshErr != nil, fmt.Sprint(refreshErr))
}

// c13CheckView evaluates the clauses on an observation (possibly made by another process).
func c13CheckView(v *layout.View, s *c13State, refreshFailed bool, refreshErr string) string {
	l := s.l
	r := layout.Resolve(l)
	// (1) every device of every good file resolves to its definition (and nothing else is listed)
	if msg := layout.CompareView(v, l, r); msg != "" {
		return "(1) " + msg
	}
	errs := v.Errors
	// (2) a key for every failing Spec-named entry, none for a good file
	for p, kind := range r.BadFiles {
		if len(errs[p]) == 0 {
			return fmt.Sprintf("(2) no entry in GetErrors() for the failing Spec file %s (%s); keys: %v", p, kind, mapKeys(errs))
		}
	}
	for p := range r.GoodFiles {
		if _, ok := errs[p]; ok {
			return fmt.Sprintf("(2) GetErrors() has an entry for the good file %s: %v", p, errs[p])
		}
	}
	// (3) Refresh returns an error iff some Spec file is in error; directory faults other than absence leave it open
	oddDir := false
	for _, di := range l.Slots {
		if k, ok := s.dirFaults[di]; ok && k != dfMissing {
			oddDir = true
		}
		if s.permDirs[di] != "" {
			oddDir = true
		}
	}
	if len(r.BadFiles) > 0 && !refreshFailed {
		return fmt.Sprintf("(3) Refresh() returned nil although %d Spec file(s) are in error: %v", len(r.BadFiles), mapKeys2(r.BadFiles))
	}
	if len(r.BadFiles) == 0 && !oddDir && refreshFailed {
		return fmt.Sprintf("(3) Refresh() returned an error although every directory is readable or absent and every Spec file is valid: %v", refreshErr)
	}
	// (4) GetSpecErrors agrees with GetErrors for every loaded Spec
	for _, specs := range v.VendorSpecs {
		for _, sp := range specs {
			if sp.NErrors != len(errs[sp.Path]) {
				return fmt.Sprintf("(4) GetSpecErrors(%s) has %d errors, GetErrors has %d", sp.Path, sp.NErrors, len(errs[sp.Path]))
			}
		}
	}
	// no stale entries: every file-level key is a bad file (or a conflicting one, impossible here)
	dirs := map[string]bool{}
	for _, p := range l.Paths() {
		dirs[filepath.Clean(p)] = true
	}
	for k := range errs {
		if dirs[k] {
			continue
		}
		if _, bad := r.BadFiles[k]; !bad {
			// entries inside odd directories are not constrained
			inOdd := false
			for di, kind := range s.dirFaults {
				if kind != dfMissing && strings.HasPrefix(k, l.Path(di)+"/") {
					inOdd = true
				}
			}
			for di := range s.permDirs {
				if strings.HasPrefix(k, l.Path(di)+"/") {
					inOdd = true
				}
			}
			if !inOdd {
				return fmt.Sprintf("(4) GetErrors() has a stale or spurious entry %s: %v", k, errs[k])
			}
		}
	}
	return ""
}

func mapKeys(m map[string][]string) []string {
	var out []string
	for k := range m {
		out = append(out, k)
	}
	sort.Strings(out)
	return out
}

func mapKeys2(m map[string]string) []string {
	var out []string
	for k, v := range m {
		out = append(out, k+"("+v+")")
	}
	sort.Strings(out)
	return out
}

func (s *c13State) describe() any {
	d := s.l.Describe().(map[string]any)
	f := map[string]string{}
	for i, k := range s.dirFaults {
		f[s.l.Pool[i].Name] = k
	}
	d["dirFaults"] = f
	return d
}

func (s *c13State) labels(last string) (labels []string, nontrivial bool) {
	l := s.l
	set := map[string]bool{"after:" + strings.SplitN(last, " ", 2)[0]: true}
	// position of faults relative to good directories
	lastGood := -1
	for prio, di := range l.Slots {
		d := l.Pool[di]
		if !d.Exists {
			continue
		}
		for n, f := range d.Files {
			if layout.IsSpecName(n) && f.Kind == layout.Valid {
				lastGood = prio
			}
		}
	}
	for prio, di := range l.Slots {
		d := l.Pool[di]
		if k, ok := s.dirFaults[di]; ok {
			set["dirfault:"+k] = true
			switch {
			case prio < lastGood:
				set["dir-fault-before-good-directory"] = true
				nontrivial = true
			default:
				set["dir-fault-after-last-good-directory"] = true
			}
			set[fmt.Sprintf("dirfault-at-index-%d", prio)] = true
			continue
		}
		if !d.Exists {
			set["dirfault:missing-pool-dir"] = true
			if prio < lastGood {
				nontrivial = true
			}
			continue
		}
		for n, f := range d.Files {
			if layout.IsSpecName(n) && f.Kind != layout.Valid {
				set["filefault:"+f.Kind] = true
				if prio < lastGood {
					set["file-fault-before-good-directory"] = true
					nontrivial = true
				}
			}
		}
	}
	if strings.HasPrefix(last, "repair") {
		nontrivial = true
	}
	for k := range set {
		labels = append(labels, k)
	}
	return labels, nontrivial
}

// propC13: auto=false - every step is followed by an explicit Refresh(); auto=true - an auto-refresh cache, no
// forced rescan: the clauses must hold once the watcher has caught up ("the first refresh after its cause is gone"
// is then the automatic one), and a directory may also leave by being renamed away.
func propC13(rec *stats.Rec, sc *scratch, auto bool) func(t *rapid.T) {
	return func(t *rapid.T) {
		root := sc.dir()
		defer os.RemoveAll(root)
		l := layout.Generate(t, root, layout.Options{DistinctDevs: true, SimpleSpell: true, MaxFiles: 3})
		if err := l.Materialise(); err != nil {
			t.Fatalf("VERIF-HARNESS materialise: %v", err)
		}
		s := &c13State{l: l, dirFaults: map[int]string{}}
		// directory faults, each at a drawn index of the directory list
		kinds := []string{dfRegular, dfAncestor, dfSymlink, dfMissing}
		for _, k := range kinds {
			if rapid.IntRange(0, 2).Draw(t, "has-"+k) == 0 {
				at := rapid.IntRange(0, len(l.Slots)).Draw(t, "at-"+k)
				if err := s.addDirFault(k, at); err != nil {
					t.Fatalf("VERIF-HARNESS dir fault: %v", err)
				}
			}
		}
		// link faults inside existing directories
		for di, d := range l.Pool {
			if !d.Exists {
				continue
			}
			if rapid.IntRange(0, 3).Draw(t, fmt.Sprintf("link%d", di)) == 0 {
				k := rapid.SampledFrom([]string{layout.DanglingLink, layout.LinkLoop, layout.LinkToDir}).Draw(t, fmt.Sprintf("linkKind%d", di))
				name := rapid.SampledFrom([]string{"l1.json", "l2.yaml"}).Draw(t, fmt.Sprintf("linkName%d", di))
				if err := l.PutFile(di, l.NewLinkFault(l.Path(di), name, k)); err != nil {
					t.Fatalf("VERIF-HARNESS link fault: %v", err)
				}
			}
		}
		s.markUsed()
		if auto {
			waitForInotify()
		}
		cache, _ := cdi.NewCache(cdi.WithSpecDirs(l.Paths()...), cdi.WithAutoRefresh(auto))
		if auto {
			defer cache.Configure(cdi.WithAutoRefresh(false))
			undecidedIfNoInotify(t, cache)
		}
		step, last, awaySeq := 0, "initial", 0
		check := func(t *rapid.T) {
			rerr := cache.Refresh()
			msg := c13Check(cache, s, rerr)
			if auto {
				// Refresh() does not rescan in auto mode: give the watcher up to 10 s
				for start := time.Now(); msg != "" && time.Since(start) < 10*time.Second; {
					time.Sleep(5 * time.Millisecond)
					rerr = cache.Refresh()
					msg = c13Check(cache, s, rerr)
				}
			}
			if msg != "" {
				t.Fatalf("C13 violated after step %d (%s, auto-refresh=%v): %s\nlayout: %s", step, last, auto, msg, canonJSON(s.describe()))
			}
			labels, nontriv := s.labels(last)
			rec.Case(nontriv, canonJSON(s.describe()), func() any { return map[string]any{"step": step, "last": last, "state": s.describe()} }, labels...)
			step++
		}
		type fileRef struct {
			d int
			n string
		}
		files := func(pred func(*layout.File) bool) []fileRef {
			var out []fileRef
			for di, d := range l.Pool {
				if !d.Exists {
					continue
				}
				for _, n := range d.SortedFileNames() {
					if layout.IsSpecName(n) && pred(d.Files[n]) {
						out = append(out, fileRef{di, n})
					}
				}
			}
			return out
		}
		existing := func() []int {
			var out []int
			for i, d := range l.Pool {
				if d.Exists {
					out = append(out, i)
				}
			}
			return out
		}
		t.Repeat(map[string]func(*rapid.T){
			"breakFile": func(t *rapid.T) { // a good file becomes a bad one
				c := files(func(f *layout.File) bool { return f.Kind == layout.Valid })
				if len(c) == 0 {
					t.Skip("no good file")
				}
				x := rapid.SampledFrom(c).Draw(t, "file")
				var f *layout.File
				if rapid.Bool().Draw(t, "asLink") {
					f = l.NewLinkFault(l.Path(x.d), x.n, rapid.SampledFrom([]string{layout.DanglingLink, layout.LinkLoop, layout.LinkToDir}).Draw(t, "linkKind"))
				} else {
					f = l.NewInvalidFile(t, "brk", l.Pool[x.d].Name, x.n)
				}
				// replaced by rename, or overwritten in place (truncate + write; an empty file is truncation only)
				put := l.PutFile
				if rapid.Bool().Draw(t, "inPlace") {
					put = l.PutFileInPlace
				}
				if err := put(x.d, f); err != nil {
					t.Fatalf("VERIF-HARNESS: %v", err)
				}
				s.markUsed()
				last = fmt.Sprintf("breakFile %s/%s -> %s", l.Pool[x.d].Name, x.n, f.Kind)
			},
			"addBadFile": func(t *rapid.T) {
				ex := existing()
				d := rapid.SampledFrom(ex).Draw(t, "dir")
				name := rapid.SampledFrom([]string{"n1.json", "n2.yaml", "n3.json"}).Draw(t, "name")
				if f, ok := l.Pool[d].Files[name]; ok && f.Kind == layout.Valid {
					t.Skip("would overwrite a good file")
				}
				f := l.NewInvalidFile(t, "add", l.Pool[d].Name, name)
				if err := l.PutFile(d, f); err != nil {
					t.Skip(err.Error())
				}
				last = fmt.Sprintf("addBadFile %s/%s (%s)", l.Pool[d].Name, name, f.Kind)
			},
			"repairFile": func(t *rapid.T) { // the cause of an error goes away
				c := files(func(f *layout.File) bool { return f.Kind != layout.Valid })
				if len(c) == 0 {
					t.Skip("no bad file")
				}
				x := rapid.SampledFrom(c).Draw(t, "file")
				kind, devs := s.freshNames(t)
				if kind == "" || rapid.IntRange(0, 2).Draw(t, "byRemoval") == 0 {
					if err := l.RemoveFile(x.d, x.n); err != nil {
						t.Fatalf("VERIF-HARNESS: %v", err)
					}
					last = fmt.Sprintf("repairFile %s/%s by removal", l.Pool[x.d].Name, x.n)
				} else {
					f := l.NewValidFile(t, "fix", l.Pool[x.d].Name, x.n, nil, kind, devs)
					_ = os.Remove(filepath.Join(l.Path(x.d), x.n))
					if err := l.PutFile(x.d, f); err != nil {
						t.Fatalf("VERIF-HARNESS: %v", err)
					}
					last = fmt.Sprintf("repairFile %s/%s by valid content", l.Pool[x.d].Name, x.n)
				}
				s.markUsed()
			},
			"addGoodFile": func(t *rapid.T) {
				kind, devs := s.freshNames(t)
				if kind == "" {
					t.Skip("no unused name")
				}
				d := rapid.SampledFrom(existing()).Draw(t, "dir")
				name := rapid.SampledFrom([]string{"g1.json", "g2.yaml", "g3.json"}).Draw(t, "name")
				if _, ok := l.Pool[d].Files[name]; ok {
					t.Skip("name taken")
				}
				if err := l.PutFile(d, l.NewValidFile(t, "good", l.Pool[d].Name, name, nil, kind, devs)); err != nil {
					t.Skip(err.Error())
				}
				s.markUsed()
				last = fmt.Sprintf("addGoodFile %s/%s", l.Pool[d].Name, name)
			},
			"repairDirFault": func(t *rapid.T) { // the odd path becomes a real directory with a good file
				var cands []int
				for i, k := range s.dirFaults {
					if k != dfSymlink && !l.Pool[i].Exists {
						cands = append(cands, i)
					}
				}
				sort.Ints(cands)
				kind, devs := s.freshNames(t)
				if len(cands) == 0 || kind == "" {
					t.Skip("nothing to repair")
				}
				i := rapid.SampledFrom(cands).Draw(t, "which")
				switch s.dirFaults[i] {
				case dfRegular:
					_ = os.Remove(l.Path(i))
				case dfAncestor:
					_ = os.Remove(filepath.Join(l.Root, "afile"))
				}
				if err := l.MakeDir(i); err != nil {
					t.Fatalf("VERIF-HARNESS: %v", err)
				}
				if err := l.PutFile(i, l.NewValidFile(t, "rep", l.Pool[i].Name, "r.json", nil, kind, devs)); err != nil {
					t.Fatalf("VERIF-HARNESS: %v", err)
				}
				delete(s.dirFaults, i)
				s.markUsed()
				last = fmt.Sprintf("repairDirFault %s", l.Pool[i].Name)
			},
			"removeDir": func(t *rapid.T) { // an existing directory goes missing
				var cands []int
				for i, d := range l.Pool {
					if d.Exists && i > 0 && i < 4 {
						cands = append(cands, i)
					}
				}
				if len(cands) == 0 {
					t.Skip("no directory to remove")
				}
				i := rapid.SampledFrom(cands).Draw(t, "which")
				if err := l.RemoveDir(i); err != nil {
					t.Fatalf("VERIF-HARNESS: %v", err)
				}
				s.markUsed()
				last = fmt.Sprintf("removeDir %s", l.Pool[i].Name)
			},
			"renameDirAway": func(t *rapid.T) { // an existing directory leaves its configured path in one rename
				var cands []int
				for i, d := range l.Pool {
					if d.Exists && i > 0 && i < 4 {
						cands = append(cands, i)
					}
				}
				if len(cands) == 0 {
					t.Skip("no directory to rename")
				}
				i := rapid.SampledFrom(cands).Draw(t, "which")
				awaySeq++
				if err := os.Rename(l.Path(i), filepath.Join(root, fmt.Sprintf("away%d", awaySeq))); err != nil {
					t.Fatalf("VERIF-HARNESS: %v", err)
				}
				l.Pool[i].Exists = false
				l.Pool[i].Files = map[string]*layout.File{}
				l.Pool[i].Subdirs = map[string]map[string]*layout.File{}
				s.markUsed()
				last = fmt.Sprintf("renameDirAway %s", l.Pool[i].Name)
			},
			"recheck": func(t *rapid.T) { last = "recheck" }, // always enabled: rapid gives up when every drawn action skips
			"":        check,
		})
	}
}

func TestC13Rapid(t *testing.T) {
	rapid.Check(t, propC13(stats.For("C13", "rapid"), newScratch(t), false))
}

func TestC13Auto(t *testing.T) {
	rapid.Check(t, propC13(stats.For("C13", "auto"), newScratch(t), true))
}

// ---------------------------------------------------------------- permission faults (unprivileged scan)

// runView runs `vhelper view` on the directories as uid 65534 (when we are
// root) and returns the observation.
func runView(dirs []string) (*layout.View, error) {
	bin := filepath.Join(os.Getenv("VERIF_BIN_DIR"), "vhelper")
	args := []string{"view"}
	if os.Geteuid() == 0 {
		args = append(args, "--uid", "65534")
	}
	args = append(args, dirs...)
	out, err := pinnedCommand(bin, args...).Output()
	if err != nil {
		return nil, fmt.Errorf("vhelper view: %v (%s)", err, string(out))
	}
	var v layout.View
	if err := json.Unmarshal(out, &v); err != nil {
		return nil, err
	}
	return &v, nil
}

func TestC13Perm(t *testing.T) {
	rec := stats.For("C13", "perm")
	if _, err := os.Stat(filepath.Join(os.Getenv("VERIF_BIN_DIR"), "vhelper")); err != nil {
		t.Fatalf("VERIF-UNDECIDED vhelper binary not found: %v", err)
	}
	// a base directory that uid 65534 can traverse (the scratch directory of the run may lie below a directory
	// closed to others, e.g. /root), and in which dropping privileges makes permission bits effective
	var base string
	var lastErr error
	for _, parent := range []string{os.TempDir(), "/tmp", "/var/tmp", "/dev/shm"} {
		b, err := os.MkdirTemp(parent, "verif-c13-")
		if err != nil {
			lastErr = err
			continue
		}
		_ = os.Chmod(b, 0o755)
		probe := filepath.Join(b, "probe")
		_ = os.Mkdir(probe, 0o755)
		doc := func(dev string) []byte {
			return []byte(`{"cdiVersion":"0.3.0","kind":"v1.com/gpu","devices":[{"name":"` + dev + `","containerEdits":{"env":["A=b"]}}]}`)
		}
		_ = os.WriteFile(filepath.Join(probe, "open.json"), doc("d0"), 0o644)
		_ = os.WriteFile(filepath.Join(probe, "p.json"), doc("d1"), 0o000)
		pv, err := runView([]string{probe})
		if err == nil && len(pv.Errors[filepath.Join(probe, "p.json")]) > 0 && len(pv.Devices) == 1 {
			base = b
			break
		}
		lastErr = fmt.Errorf("below %s: helper error %v", parent, err)
		os.RemoveAll(b)
	}
	if base == "" {
		rec.Label("env:permission-faults-not-effective-skipped")
		t.Skipf("VERIF-ENV-SKIP permission faults are not effective in this environment (%v)", lastErr)
	}
	defer os.RemoveAll(base)
	seq := 0
	rapid.Check(t, func(t *rapid.T) {
		seq++
		root := filepath.Join(base, fmt.Sprintf("case%d", seq))
		_ = os.Mkdir(root, 0o755)
		defer func() {
			_ = filepath.Walk(root, func(p string, info os.FileInfo, err error) error { _ = os.Chmod(p, 0o755); return nil })
			os.RemoveAll(root)
		}()
		l := layout.Generate(t, root, layout.Options{DistinctDevs: true, SimpleSpell: true, MaxFiles: 3, NoMissing: true})
		if err := l.Materialise(); err != nil {
			t.Fatalf("VERIF-HARNESS materialise: %v", err)
		}
		s := &c13State{l: l, dirFaults: map[int]string{}, permDirs: map[int]string{}}
		if rapid.IntRange(0, 2).Draw(t, "ancestor") == 0 {
			// a directory below an unreadable ancestor, holding a valid file
			if err := os.MkdirAll(filepath.Join(root, "locked", "sub"), 0o755); err != nil {
				t.Fatal(err)
			}
			l.Pool = append(l.Pool, &layout.Dir{Name: "locked/sub", Exists: false, Files: map[string]*layout.File{}, Subdirs: map[string]map[string]*layout.File{}})
			idx := len(l.Pool) - 1
			_ = os.WriteFile(filepath.Join(root, "locked", "sub", "z.json"), []byte(`{"cdiVersion":"0.3.0","kind":"zz.com/gpu","devices":[{"name":"hidden","containerEdits":{"env":["A=b"]}}]}`), 0o644)
			at := rapid.IntRange(0, len(l.Slots)).Draw(t, "ancestorAt")
			l.Slots = append(l.Slots[:at], append([]int{idx}, l.Slots[at:]...)...)
			l.Spelling = append(l.Spelling[:at], append([]string{l.Path(idx)}, l.Spelling[at:]...)...)
			s.permDirs[idx] = "unreadable-ancestor"
			_ = os.Chmod(filepath.Join(root, "locked"), 0o000)
		}
		var chmods []string
		for di, d := range l.Pool[:4] {
			switch rapid.IntRange(0, 5).Draw(t, fmt.Sprintf("dirPerm%d", di)) {
			case 0:
				s.permDirs[di] = "dir-mode-000"
				chmods = append(chmods, "000:"+l.Path(di))
			case 1:
				s.permDirs[di] = "dir-mode-444"
				chmods = append(chmods, "444:"+l.Path(di))
			}
			if s.permDirs[di] != "" {
				// nothing inside is loadable: the model treats the directory as contributing nothing
				d.Exists = false
				continue
			}
			for _, n := range d.SortedFileNames() {
				f := d.Files[n]
				if layout.IsSpecName(n) && f.Kind == layout.Valid && rapid.IntRange(0, 4).Draw(t, fmt.Sprintf("filePerm%d%s", di, n)) == 0 {
					f.Kind = "mode-000"
					chmods = append(chmods, "000:"+filepath.Join(l.Path(di), n))
				}
			}
		}
		for _, c := range chmods {
			mode := os.FileMode(0o000)
			if strings.HasPrefix(c, "444:") {
				mode = 0o444
			}
			if err := os.Chmod(c[4:], mode); err != nil {
				t.Fatalf("VERIF-HARNESS chmod: %v", err)
			}
		}
		v, err := runView(l.Paths())
		if err != nil {
			t.Fatalf("VERIF-HARNESS %v", err)
		}
		if msg := c13CheckView(v, s, v.RefreshErr != "", v.RefreshErr); msg != "" {
			t.Fatalf("C13 violated (scan as unprivileged user): %s\nlayout: %s\npermission faults: %v %v", msg, canonJSON(s.describe()), chmods, s.permDirs)
		}
		labels := []string{"perm-scan"}
		nontriv := false
		lastGood := -1
		for prio, di := range l.Slots {
			if l.Pool[di].Exists && len(l.Pool[di].Files) > 0 {
				lastGood = prio
			}
		}
		for prio, di := range l.Slots {
			if k := s.permDirs[di]; k != "" {
				labels = append(labels, "permfault:"+k)
				if prio < lastGood {
					nontriv = true
					labels = append(labels, "perm-dir-fault-before-good-directory")
				}
			}
		}
		for _, c := range chmods {
			if strings.HasSuffix(c, ".json") || strings.HasSuffix(c, ".yaml") {
				labels = append(labels, "permfault:file-mode-000")
				nontriv = true
			}
		}
		rec.Case(nontriv, canonJSON(s.describe())+fmt.Sprint(chmods), func() any {
			return map[string]any{"state": s.describe(), "chmod": chmods, "permDirs": fmt.Sprint(s.permDirs)}
		}, labels...)
	})
}

// ---------------------------------------------------------------- I/O faults at the system-call boundary

// TestC13ReadFaults: the scan runs in the helper process under strace; for
// every openat / getdents64 / read the scan performs on a configured directory
// or on a Spec file, one run with an error injected into exactly that call.
func TestC13ReadFaults(t *testing.T) {
	rec := stats.For("C13", "readfaults")
	tl := newC10Tools(t)
	if tl.strace == "" {
		rec.Label("env:strace-unavailable-skipped")
		t.Skip("VERIF-ENV-SKIP strace not available")
	}
	sc := newScratch(t)
	rapid.Check(t, func(t *rapid.T) {
		root := sc.dir()
		defer os.RemoveAll(root)
		l := layout.Generate(t, root, layout.Options{DistinctDevs: true, SimpleSpell: true, MaxFiles: 3, NoInvalid: true, NoIgnored: true, NoRepeat: true})
		if err := l.Materialise(); err != nil {
			t.Fatalf("VERIF-HARNESS materialise: %v", err)
		}
		logPath := filepath.Join(root, "strace.log")
		runView := func(inject string) (*layout.View, []straceEvent, int, error) {
			a := []string{"-f", "-o", logPath, "-e", "trace=openat,getdents64,read,newfstatat,close"}
			if inject != "" {
				a = append(a, "-e", "inject="+inject)
			}
			a = append(a, tl.vhelper, "view")
			a = append(a, l.Paths()...)
			out, err := pinnedCommand(tl.strace, a...).Output()
			if err != nil {
				return nil, nil, -1, fmt.Errorf("%v: %s", err, out)
			}
			var v layout.View
			if err := json.Unmarshal(out, &v); err != nil {
				return nil, nil, -1, err
			}
			_, all, _, _, perr := parseStrace(logPath)
			injectedAt := -1
			if perr == nil {
				raw, _ := os.ReadFile(logPath)
				_ = raw
				for i, ev := range all {
					if strings.Contains(ev.text, "(INJECTED)") {
						injectedAt = i
					}
				}
			}
			return &v, all, injectedAt, perr
		}
		_, all, _, err := runView("")
		if err != nil {
			rec.Label("env:strace-unavailable-skipped")
			t.Skipf("VERIF-ENV-SKIP strace cannot trace here: %v", err)
		}
		// calls of the main thread that touch a configured directory or a Spec file in it
		type target struct {
			ev   straceEvent
			dir  int    // pool index
			file string // Spec file name, "" = the directory itself
		}
		var targets []target
		fdOf := map[string]target{}
		for _, ev := range all {
			switch ev.name {
			case "openat":
				for di, d := range l.Pool[:4] {
					p := l.Path(di)
					if !d.Exists || !strings.Contains(ev.text, "\""+p) {
						continue
					}
					tg := target{ev: ev, dir: di}
					if i := strings.Index(ev.text, "\""+p+"/"); i >= 0 {
						rest := ev.text[i+len(p)+2:]
						tg.file = rest[:strings.IndexByte(rest, '"')]
					}
					targets = append(targets, tg)
					if m := reRet.FindStringSubmatch(ev.text); m != nil {
						fdOf[m[1]] = tg
					}
				}
			case "read", "getdents64":
				fd := ev.text[len(ev.name)+1 : len(ev.name)+1+strings.IndexAny(ev.text[len(ev.name)+1:], ",)")]
				if tg, ok := fdOf[fd]; ok {
					targets = append(targets, target{ev: ev, dir: tg.dir, file: tg.file})
				}
			case "close":
				delete(fdOf, strings.TrimSuffix(strings.TrimPrefix(strings.SplitN(ev.text, ")", 2)[0], "close("), ")"))
			}
		}
		// the helper scans twice (cache creation, then the explicit Refresh); only a fault in the
		// last scan shows in the final view: keep the second half of the calls of each (call, object)
		groups := map[string][]target{}
		var order []string
		for _, tg := range targets {
			k := fmt.Sprintf("%s|%d|%s", tg.ev.name, tg.dir, tg.file)
			if _, ok := groups[k]; !ok {
				order = append(order, k)
			}
			groups[k] = append(groups[k], tg)
		}
		targets = nil
		for _, k := range order {
			g := groups[k]
			targets = append(targets, g[len(g)/2:]...)
		}
		if len(targets) == 0 {
			rec.Label("no-io-on-configured-directories")
			return
		}
		// one injected run per target (a sample of at most 12 per layout)
		for n := 0; n < 12 && len(targets) > 0; n++ {
			k := rapid.IntRange(0, len(targets)-1).Draw(t, fmt.Sprintf("target%d", n))
			tg := targets[k]
			targets = append(targets[:k], targets[k+1:]...)
			errno := rapid.SampledFrom([]string{"EIO", "EACCES", "ENOENT", "EMFILE", "ENOMEM"}).Draw(t, fmt.Sprintf("errno%d", n))
			v, all2, injectedAt, err := runView(fmt.Sprintf("%s:when=%d:error=%s", tg.ev.name, tg.ev.ordinal, errno))
			if err != nil || injectedAt < 0 || all2[injectedAt].name != tg.ev.name || all2[injectedAt].ordinal != tg.ev.ordinal {
				rec.Excluded("fault-did-not-land-on-the-intended-call")
				continue
			}
			// the model: the failing file is a bad file, a failing directory contributes nothing reliable
			s := &c13State{l: l, dirFaults: map[int]string{}, permDirs: map[int]string{}}
			var restore func()
			if tg.file != "" && layout.IsSpecName(tg.file) && l.Pool[tg.dir].Files[tg.file] != nil {
				f := l.Pool[tg.dir].Files[tg.file]
				oldKind := f.Kind
				f.Kind = "io-error-" + errno
				if errno == "ENOENT" {
					// a file that vanished between listing and reading: an entry is required as well (the dangling-link case)
					f.Kind = "vanished"
				}
				restore = func() { f.Kind = oldKind }
			} else {
				d := l.Pool[tg.dir]
				s.permDirs[tg.dir] = "io-error"
				d.Exists = false
				restore = func() { d.Exists = true }
			}
			msg := c13CheckView(v, s, v.RefreshErr != "", v.RefreshErr)
			restore()
			if msg != "" {
				t.Fatalf("C13 violated (I/O fault %s injected into %s): %s\nlayout: %s", errno, clip(tg.ev.text, 160), msg, canonJSON(l.Describe()))
			}
			lastGood := -1
			for prio, di := range l.Slots {
				if l.Pool[di].Exists && len(l.Pool[di].Files) > 0 {
					lastGood = prio
				}
			}
			nontriv := false
			for prio, di := range l.Slots {
				if di == tg.dir && prio < lastGood {
					nontriv = true
				}
			}
			what := "directory"
			if tg.file != "" {
				what = "file"
			}
			rec.Case(nontriv, canonJSON(l.Describe())+tg.ev.text+errno, func() any {
				return map[string]any{"layout": l.Describe(), "call": clip(tg.ev.text, 160), "errno": errno}
			}, "iofault:"+tg.ev.name, "iofault-on:"+what, "errno:"+errno)
		}
	})
}

// TestC13Vanish: a Spec file that vanishes between the listing of its
// directory and its turn in the scan (removed by somebody else at that very
// moment). The interleaving is made deterministic with a Spec validator hook
// that removes the victim while an earlier file of the same scan is being
// loaded. The fault concerns the victim only: every other file, in
// particular those sorting after it, must resolve, in this and in the next
// refresh.
func TestC13Vanish(t *testing.T) {
	rec := stats.For("C13", "vanish")
	sc := newScratch(t)
	defer cdi.SetSpecValidator(nil)
	rapid.Check(t, func(t *rapid.T) {
		root := sc.dir()
		defer os.RemoveAll(root)
		nDirs := rapid.IntRange(1, 2).Draw(t, "nDirs")
		type entry struct{ dir, name, kind, dev string }
		var entries []entry
		var dirs []string
		for di := 0; di < nDirs; di++ {
			d := filepath.Join(root, fmt.Sprintf("d%d", di))
			_ = os.MkdirAll(d, 0o755)
			dirs = append(dirs, d)
			for fi, n := 0, rapid.IntRange(2, 5).Draw(t, fmt.Sprintf("d%dFiles", di)); fi < n; fi++ {
				e := entry{dir: d, name: fmt.Sprintf("%c-f%d.%s", 'a'+fi, fi, rapid.SampledFrom([]string{"json", "yaml"}).Draw(t, fmt.Sprintf("d%df%dExt", di, fi))),
					kind: fmt.Sprintf("v%d.com/k%d", di, fi), dev: "x"}
				_ = os.WriteFile(filepath.Join(d, e.name), []byte(fmt.Sprintf(`{"cdiVersion":"0.6.0","kind":"%s","devices":[{"name":"%s","containerEdits":{"env":["F=%d"]}}]}`, e.kind, e.dev, fi)), 0o644)
				entries = append(entries, e)
			}
		}
		// victim: not the first file of its directory; trigger: a file of the same directory sorting before it
		var cands []int
		for i := range entries {
			if i > 0 && entries[i-1].dir == entries[i].dir {
				cands = append(cands, i)
			}
		}
		v := rapid.SampledFrom(cands).Draw(t, "victim")
		first := v
		for first > 0 && entries[first-1].dir == entries[v].dir {
			first--
		}
		trig := rapid.IntRange(first, v-1).Draw(t, "trigger")
		victimPath := filepath.Join(entries[v].dir, entries[v].name)
		cache, _ := cdi.NewCache(cdi.WithSpecDirs(dirs...), cdi.WithAutoRefresh(false))
		armed := true
		cdi.SetSpecValidator(validatorFunc(func(s *specs.Spec) error {
			if armed && s.Kind == entries[trig].kind {
				armed = false
				_ = os.Remove(victimPath)
			}
			return nil
		}))
		rerr := cache.Refresh()
		cdi.SetSpecValidator(nil)
		check := func(when string) {
			for i, e := range entries {
				q := e.kind + "=" + e.dev
				d := cache.GetDevice(q)
				if i == v {
					if d != nil {
						t.Fatalf("C13 violated (%s): %s was removed during the scan and still resolves", when, q)
					}
					continue
				}
				if d == nil {
					t.Fatalf("C13 violated (%s): %s vanished between the listing of %s and its turn in the scan (removed while %s was being loaded); the untouched file %s no longer resolves (Refresh returned %v, error keys %v)",
						when, entries[v].name, entries[v].dir, entries[trig].name, filepath.Join(e.dir, e.name), rerr, mapKeysErr(cache.GetErrors()))
				}
			}
		}
		check("refresh during which the file vanished")
		rerr = cache.Refresh()
		check("next refresh")
		if rerr != nil || len(cache.GetErrors()) != 0 {
			t.Fatalf("C13 violated: after the vanished file is gone for good every remaining file is valid, yet Refresh returns %v and the error report has %v", rerr, mapKeysErr(cache.GetErrors()))
		}
		c := map[string]any{"dirs": nDirs, "files": len(entries), "victim": v, "trigger": trig}
		rec.Case(v < len(entries)-1 && entries[v+1].dir == entries[v].dir, canonJSON(c), func() any { return c }, "vanished-during-scan")
	})
}

type validatorFunc func(*specs.Spec) error

func (f validatorFunc) Validate(s *specs.Spec) error { return f(s) }

func mapKeysErr(m map[string][]error) []string {
	var out []string
	for k := range m {
		out = append(out, k)
	}
	sort.Strings(out)
	return out
}
