package props

import (
	"encoding/json"
	"fmt"
	"os"
	"path/filepath"
	"sort"
	"testing"

	oci "github.com/opencontainers/runtime-spec/specs-go"
	"pgregory.net/rapid"
	"tags.cncf.io/container-device-interface/pkg/cdi"
	specs "tags.cncf.io/container-device-interface/specs-go"
	"tags.cncf.io/container-device-interface/verifharness/gen"
	"tags.cncf.io/container-device-interface/verifharness/model"
	"tags.cncf.io/container-device-interface/verifharness/stats"
)

// mutableHost is a directory of host nodes that the state machine changes.
type mutableHost struct {
	*hostEnv
	serial int
}

func newMutableHost(dir string, mknodOK bool) *mutableHost {
	return &mutableHost{hostEnv: &hostEnv{dir: dir, nodes: map[string]hostNode{}, mknodOK: mknodOK}}
}

// set replaces host node name by a node of the given kind.
func (h *mutableHost) set(name, typ string, maj, min uint32) error {
	p := filepath.Join(h.dir, name)
	_ = os.RemoveAll(p)
	if typ == "missing" {
		h.nodes[p] = hostNode{"missing", 0, 0}
		return nil
	}
	if err := mkNode(p, typ, maj, min); err != nil {
		return err
	}
	h.nodes[p] = hostNode{typ, int64(maj), int64(min)}
	return nil
}

type c14File struct {
	path string
	spec *specs.Spec // pristine content
}

func TestC14Rapid(t *testing.T) {
	rec := stats.For("C14", "rapid")
	sc := newScratch(t)
	probe := newHostEnv(t)
	if probe.fallback {
		rec.Label("env:no-mknod-fallback")
	}
	rapid.Check(t, func(t *rapid.T) {
		root := sc.dir()
		defer os.RemoveAll(root)
		hostDir := filepath.Join(root, "host")
		specDir := filepath.Join(root, "specs")
		outDir := filepath.Join(root, "out")
		for _, d := range []string{hostDir, specDir} {
			if err := os.MkdirAll(d, 0o755); err != nil {
				t.Fatal(err)
			}
		}
		h := newMutableHost(hostDir, !probe.fallback)
		hostNames := []string{"h0", "h1", "h2", "h3"}
		drawNode := func(t *rapid.T, name, label string) string {
			kinds := []string{"c", "c", "b", "p", "missing", "file"}
			if !h.mknodOK {
				kinds = []string{"p", "missing", "file"}
			}
			k := rapid.SampledFrom(kinds).Draw(t, label+"Kind")
			maj := rapid.SampledFrom([]uint32{1, 7, 8, 250}).Draw(t, label+"Maj")
			min := rapid.SampledFrom([]uint32{0, 3, 9, 200}).Draw(t, label+"Min")
			if err := h.set(name, k, maj, min); err != nil {
				t.Fatalf("VERIF-HARNESS host node: %v", err)
			}
			return fmt.Sprintf("%s=%s %d:%d", name, k, maj, min)
		}
		for _, n := range hostNames {
			drawNode(t, n, "init-"+n)
		}
		// Spec files: distinct devices, device nodes that leave attributes to the host
		var files []c14File
		pristine := map[string]*specs.Device{} // qualified name -> pristine device
		specOf := map[string]*c14File{}
		nFiles := rapid.IntRange(1, 3).Draw(t, "nFiles")
		for fi := 0; fi < nFiles; fi++ {
			s := &specs.Spec{Kind: fmt.Sprintf("v%d.com/gpu", fi)}
			mkNodes := func(label string, n int) []*specs.DeviceNode {
				var out []*specs.DeviceNode
				for i := 0; i < n; i++ {
					l := fmt.Sprintf("%s%d", label, i)
					hp := filepath.Join(hostDir, rapid.SampledFrom(hostNames).Draw(t, l+"host"))
					dn := &specs.DeviceNode{Path: fmt.Sprintf("/dev/f%d%s", fi, l)}
					if rapid.Bool().Draw(t, l+"useHostPath") {
						dn.HostPath = hp
					} else {
						dn.Path = hp
					}
					dn.Type = rapid.SampledFrom([]string{"", "", "", "c", "b"}).Draw(t, l+"type")
					if rapid.IntRange(0, 3).Draw(t, l+"explicitMajor") == 0 {
						dn.Major, dn.Minor = 42, 7
					}
					dn.Permissions = rapid.SampledFrom([]string{"", "rw"}).Draw(t, l+"perm")
					// pointer-valued members: a shallow copy of the node still shares them with the cache
					if rapid.Bool().Draw(t, l+"hasMode") {
						m := os.FileMode(rapid.SampledFrom([]uint32{0o666, 0o2660, 8630, 0o4755 | 1<<31, 4294967295, 0}).Draw(t, l+"mode"))
						dn.FileMode = &m
					}
					if rapid.Bool().Draw(t, l+"hasUid") {
						u := rapid.SampledFrom([]uint32{0, 1000, 4294967295}).Draw(t, l+"uid")
						dn.UID = &u
					}
					if rapid.Bool().Draw(t, l+"hasGid") {
						g := rapid.SampledFrom([]uint32{0, 44, 4294967295}).Draw(t, l+"gid")
						dn.GID = &g
					}
					out = append(out, dn)
				}
				return out
			}
			// the other edit kinds (hooks with args/env, mounts with options, additional gids incl. 0 and repeats,
			// Intel RDT): slices and pointers that an in-place "filter" or a shared pointer would write through
			others := func(label string, e *specs.ContainerEdits) {
				if !rapid.Bool().Draw(t, label+"others") {
					return
				}
				x := gen.Edits(t, label, gen.EditOpts{NoHost: true, Marker: label, MaxPer: 3})
				e.Hooks, e.Mounts, e.IntelRdt = x.Hooks, x.Mounts, x.IntelRdt
				e.AdditionalGIDs = x.AdditionalGIDs
				if len(e.AdditionalGIDs) > 0 && rapid.Bool().Draw(t, label+"zeroGidFirst") {
					e.AdditionalGIDs = append([]uint32{0}, e.AdditionalGIDs...)
				}
			}
			if rapid.Bool().Draw(t, fmt.Sprintf("f%dSpecEdits", fi)) {
				s.ContainerEdits.DeviceNodes = mkNodes("s", 1)
				s.ContainerEdits.Env = []string{fmt.Sprintf("SPEC%d=1", fi)}
				others(fmt.Sprintf("f%ds", fi), &s.ContainerEdits)
			}
			nDev := rapid.IntRange(1, 2).Draw(t, fmt.Sprintf("f%dDevs", fi))
			for di := 0; di < nDev; di++ {
				d := specs.Device{Name: fmt.Sprintf("d%d", di)}
				d.ContainerEdits.DeviceNodes = mkNodes(fmt.Sprintf("d%dn", di), rapid.IntRange(1, 2).Draw(t, fmt.Sprintf("f%dd%dNodes", fi, di)))
				d.ContainerEdits.Env = []string{fmt.Sprintf("DEV%d_%d=1", fi, di)}
				others(fmt.Sprintf("f%dd%d", fi, di), &d.ContainerEdits)
				s.Devices = append(s.Devices, d)
			}
			s.Version = model.RequiredVersion(s)
			p := filepath.Join(specDir, fmt.Sprintf("f%d.json", fi))
			if fi%2 == 1 {
				p = filepath.Join(specDir, fmt.Sprintf("f%d.yaml", fi))
			}
			b, _ := json.Marshal(s)
			if err := os.WriteFile(p, b, 0o644); err != nil {
				t.Fatal(err)
			}
			files = append(files, c14File{p, s})
		}
		for i := range files {
			f := &files[i]
			for j := range f.spec.Devices {
				q := f.spec.Kind + "=" + f.spec.Devices[j].Name
				pristine[q] = &f.spec.Devices[j]
				specOf[q] = f
			}
		}
		var allNames []string
		for q := range pristine {
			allNames = append(allNames, q)
		}
		sort.Strings(allNames)
		cache, _ := cdi.NewCache(cdi.WithSpecDirs(specDir), cdi.WithAutoRefresh(false))
		if err := cache.Refresh(); err != nil {
			t.Fatalf("VERIF-HARNESS generated Specs do not load: %v", err)
		}
		last := "initial"
		step := 0
		hostChanges, injections, injectionsAfterChange := 0, 0, 0
		changedSinceInject := false
		fail := func(msg string) {
			var fs []string
			for _, f := range files {
				fs = append(fs, specImage(f.spec))
			}
			t.Fatalf("C14 violated after step %d (%s): %s\nSpec files: %v\nhost: %v", step, last, msg, fs, h.nodes)
		}
		// (1) cached Specs and devices equal the files they came from
		unchanged := func(t *rapid.T) {
			for _, f := range files {
				vendor := f.spec.Kind[:len(f.spec.Kind)-len("/gpu")]
				found := false
				for _, cs := range cache.GetVendorSpecs(vendor) {
					if cs.GetPath() != f.path {
						continue
					}
					found = true
					if a, b := specImage(f.spec), specImage(cs.Spec); a != b {
						fail("the cached Spec of " + filepath.Base(f.path) + " changed: " + firstDiff(a, b))
					}
					for _, pd := range f.spec.Devices {
						cd := cs.GetDevice(pd.Name)
						if cd == nil {
							fail("device " + pd.Name + " vanished from its cached Spec")
						}
						if a, b := canonJSON(pd), canonJSON(cd.Device); a != b {
							fail("the cached device " + pd.Name + " (via Spec.GetDevice) changed: " + firstDiff(a, b))
						}
					}
				}
				if !found {
					fail("Spec " + f.path + " vanished from the cache")
				}
			}
			for _, q := range allNames {
				cd := cache.GetDevice(q)
				if cd == nil {
					fail("device " + q + " vanished from the cache")
				}
				if a, b := canonJSON(pristine[q]), canonJSON(cd.Device); a != b {
					fail("the cached device " + q + " changed: " + firstDiff(a, b))
				}
			}
			step++
		}
		combinedFor := func(req []string) *specs.ContainerEdits {
			var combined specs.ContainerEdits
			seen := map[*c14File]bool{}
			for _, q := range req {
				f := specOf[q]
				if !seen[f] {
					seen[f] = true
					appendEdits(&combined, &f.spec.ContainerEdits)
				}
				appendEdits(&combined, &pristine[q].ContainerEdits)
			}
			return jsonCloneEdits(canonJSON(&combined))
		}
		var prevReq []string
		var usedOCI *oci.Spec
		var prevOCI *oci.Spec
		var prevResult string
		var prevErr bool
		writeSeq := 0
		t.Repeat(map[string]func(*rapid.T){
			"inject": func(t *rapid.T) {
				var req []string
				var o *oci.Spec
				repeat := prevReq != nil && rapid.Bool().Draw(t, "repeatPrevious")
				if repeat {
					req, o = prevReq, gen.CloneOCI(prevOCI)
				} else {
					perm := rapid.Permutation(allNames).Draw(t, "order")
					req = perm[:rapid.IntRange(1, len(perm)).Draw(t, "nReq")]
					if prevReq != nil && len(prevReq) <= len(perm) && rapid.Bool().Draw(t, "reuseRequestSlice") {
						// the caller fills the slice it used for the previous request with other names and passes it again
						copy(prevReq, perm[:len(prevReq)])
						req = prevReq
						rec.Label("request-slice-reused-with-other-names")
					}
					o = gen.OCISpec(t, "oci", gen.OCIOpts{DevPaths: []string{"/dev/a", "/dev/f0d0n0", "/dev/f1s0"}})
				}
				before := gen.CloneOCI(o)
				twin := gen.CloneOCI(o)
				unres, err := cache.InjectDevices(o, req...)
				if unres != nil {
					fail(fmt.Sprintf("resolvable devices reported unresolved: %v", unres))
				}
				// (3) the result follows the current host nodes
				msg, outcome := checkEditsApplied(h.hostEnv, before, o, combinedFor(req), err)
				if msg != "" {
					fail(fmt.Sprintf("injection of %v does not reflect the Spec files and the current host nodes: %s", req, msg))
				}
				// (2) the same request into an equal OCI spec gives an equal result
				_, err2 := cache.InjectDevices(twin, req...)
				if (err == nil) != (err2 == nil) {
					fail(fmt.Sprintf("injecting %v twice: first error %v, second error %v", req, err, err2))
				}
				if err == nil && gen.OCIImage(o) != gen.OCIImage(twin) {
					fail(fmt.Sprintf("injecting %v into equal OCI specs gave different results: %s", req, firstDiff(gen.OCIImage(o), gen.OCIImage(twin))))
				}
				if repeat && !changedSinceInject && err == nil && !prevErr && gen.OCIImage(o) != prevResult {
					fail(fmt.Sprintf("repeating the injection of %v with unchanged host nodes gave a different result: %s", req, firstDiff(prevResult, gen.OCIImage(o))))
				}
				injections++
				if changedSinceInject && outcome == "ok" {
					injectionsAfterChange++
				}
				changedSinceInject = false
				prevReq, prevOCI, prevResult, prevErr = req, before, gen.OCIImage(o), err != nil
				usedOCI = o
				last = fmt.Sprintf("inject %v (%s)", req, outcome)
			},
			"injectWithAnUnresolvableName": func(t *rapid.T) {
				// a request that fails (one name does not resolve) must leave no trace: the injections after it are
				// judged like all others
				perm := rapid.Permutation(allNames).Draw(t, "order")
				req := append([]string{}, perm[:rapid.IntRange(1, len(perm)).Draw(t, "nReq")]...)
				at := rapid.IntRange(0, len(req)).Draw(t, "missAt")
				req = append(req[:at], append([]string{"no.such/device=x"}, req[at:]...)...)
				o := gen.OCISpec(t, "oci", gen.OCIOpts{})
				before := gen.OCIImage(o)
				unres, err := cache.InjectDevices(o, req...)
				if err == nil || len(unres) != 1 || gen.OCIImage(o) != before {
					fail(fmt.Sprintf("request %v with one unresolvable name: unresolved %v, error %v, OCI spec changed: %v", req, unres, err, gen.OCIImage(o) != before))
				}
				last = fmt.Sprintf("injectWithAnUnresolvableName %v", req)
			},
			"injectIntoTheSameOCISpecAgain": func(t *rapid.T) {
				// a second round of injection for the same container: the OCI spec object already carries what an
				// earlier injection put there (sections of it may be shared with the cache if the library hands out pointers)
				if usedOCI == nil {
					t.Skip("no OCI spec injected into yet")
				}
				perm := rapid.Permutation(allNames).Draw(t, "order")
				req := perm[:rapid.IntRange(1, len(perm)).Draw(t, "nReq")]
				_, _ = cache.InjectDevices(usedOCI, req...)
				if rapid.Bool().Draw(t, "alsoApplyEdits") {
					_ = cache.GetDevice(req[0]).ApplyEdits(usedOCI)
				}
				last = fmt.Sprintf("injectIntoTheSameOCISpecAgain %v", req)
			},
			"deviceApplyEdits": func(t *rapid.T) {
				q := rapid.SampledFrom(allNames).Draw(t, "device")
				o := gen.OCISpec(t, "oci", gen.OCIOpts{})
				before := gen.CloneOCI(o)
				err := cache.GetDevice(q).ApplyEdits(o)
				if msg, _ := checkEditsApplied(h.hostEnv, before, o, jsonCloneEdits(canonJSON(&pristine[q].ContainerEdits)), err); msg != "" {
					fail(fmt.Sprintf("Device.ApplyEdits of %s: %s", q, msg))
				}
				last = "deviceApplyEdits " + q
			},
			"specApplyEdits": func(t *rapid.T) {
				q := rapid.SampledFrom(allNames).Draw(t, "device")
				o := gen.OCISpec(t, "oci", gen.OCIOpts{})
				before := gen.CloneOCI(o)
				err := cache.GetDevice(q).GetSpec().ApplyEdits(o)
				if msg, _ := checkEditsApplied(h.hostEnv, before, o, jsonCloneEdits(canonJSON(&specOf[q].spec.ContainerEdits)), err); msg != "" {
					fail(fmt.Sprintf("Spec.ApplyEdits of the Spec of %s: %s", q, msg))
				}
				last = "specApplyEdits " + q
			},
			"changeHostNode": func(t *rapid.T) {
				n := rapid.SampledFrom(hostNames).Draw(t, "node")
				last = "changeHostNode " + drawNode(t, n, "chg")
				hostChanges++
				changedSinceInject = true
			},
			"writeBack": func(t *rapid.T) {
				// (4) a cached Spec can be written back unchanged
				q := rapid.SampledFrom(allNames).Draw(t, "device")
				cs := cache.GetDevice(q).GetSpec()
				writeSeq++
				out, _ := cdi.NewCache(cdi.WithSpecDirs(outDir), cdi.WithAutoRefresh(false))
				name := fmt.Sprintf("copy%d", writeSeq) + rapid.SampledFrom([]string{"", ".json", ".yaml"}).Draw(t, "ext")
				if err := out.WriteSpec(cs.Spec, name); err != nil {
					fail(fmt.Sprintf("writing the cached Spec of %s back failed: %v", q, err))
				}
				p := filepath.Join(outDir, name)
				if filepath.Ext(p) != ".json" && filepath.Ext(p) != ".yaml" {
					p += ".yaml"
				}
				rs, err := cdi.ReadSpec(p, 0)
				if err != nil {
					fail(fmt.Sprintf("the written-back Spec does not load: %v", err))
				}
				if a, b := specImage(specOf[q].spec), specImage(rs.Spec); a != b {
					fail("the written-back Spec differs from the file it came from: " + firstDiff(a, b))
				}
				last = "writeBack " + q
			},
			"": unchanged,
		})
		labels := []string{fmt.Sprintf("files-%d", nFiles)}
		if hostChanges > 0 {
			labels = append(labels, "host-changed")
		}
		if injectionsAfterChange > 0 {
			labels = append(labels, "injection-after-host-change")
		}
		if injections >= 2 {
			labels = append(labels, "repeated-injection")
		}
		rec.Add("steps", int64(step))
		rec.Case(injections >= 2 && injectionsAfterChange > 0, canonJSON(h.nodes)+fmt.Sprint(step, last), func() any {
			var fs []json.RawMessage
			for _, f := range files {
				fs = append(fs, json.RawMessage(specImage(f.spec)))
			}
			return map[string]any{"specFiles": fs, "steps": step, "lastStep": last, "hostChanges": hostChanges, "injections": injections}
		}, labels...)
	})
}
