package props

import (
	"encoding/json"
	"fmt"
	"reflect"
	"sort"
	"strings"
	"testing"
	"unicode/utf8"

	"pgregory.net/rapid"
	"tags.cncf.io/container-device-interface/pkg/cdi"
	"tags.cncf.io/container-device-interface/verifharness/model"
	"tags.cncf.io/container-device-interface/verifharness/stats"
)

const cdiPrefix = "cdi.k8s.io/"

type c15Case struct {
	Init    map[string]string `json:"init"` // nil allowed
	InitNil bool              `json:"initNil"`
	Plugin  string            `json:"plugin"`
	ID      string            `json:"id"`
	Devices []string          `json:"devices"`
}

func copyMap(m map[string]string) map[string]string {
	if m == nil {
		return nil
	}
	c := make(map[string]string, len(m))
	for k, v := range m {
		c[k] = v
	}
	return c
}

// modelK8sName: 1..63 characters, alphanumeric at both ends, [-A-Za-z0-9_.] inside.
func modelK8sName(name string) bool {
	return !strings.Contains(name, "/") && model.K8sAnnotationKey(name)
}

func allQualified(devs []string) bool {
	for _, d := range devs {
		if _, _, _, ok := model.QualifiedName(d); !ok {
			return false
		}
	}
	return true
}

// checkC15Update is the oracle for UpdateAnnotations.
func checkC15Update(c c15Case) (msg string) {
	err := catch(func() {
		var in map[string]string
		if !c.InitNil {
			in = copyMap(c.Init)
			if in == nil {
				in = map[string]string{}
			}
		}
		snap := copyMap(in)
		out, uerr := cdi.UpdateAnnotations(in, c.Plugin, c.ID, c.Devices)
		name := c.Plugin + "_" + strings.ReplaceAll(c.ID, "/", "_")
		wantKey := cdiPrefix + name
		_, used := snap[wantKey]
		mustSucceed := c.Plugin != "" && c.ID != "" && modelK8sName(name) && allQualified(c.Devices) && !used
		if uerr != nil {
			if mustSucceed {
				msg = fmt.Sprintf("request with valid plugin, id and devices and an unused key failed: %v", uerr)
				return
			}
			// the map must be exactly as it was: same keys and values, nil stays nil
			if !reflect.DeepEqual(out, snap) || !reflect.DeepEqual(in, snap) {
				msg = fmt.Sprintf("failed call changed the map: before %v, returned %v, argument now %v", snap, out, in)
				return
			}
			if (snap == nil) != (out == nil) {
				msg = "failed call turned a nil map into a non-nil one (or vice versa)"
			}
			return
		}
		// success: exactly one new key
		var added []string
		for k := range out {
			if _, ok := snap[k]; !ok {
				added = append(added, k)
			}
		}
		for k, v := range snap {
			if ov, ok := out[k]; !ok || ov != v {
				msg = fmt.Sprintf("existing key %q changed or was removed (an already used key must never be overwritten)", k)
				return
			}
		}
		if len(added) != 1 {
			msg = fmt.Sprintf("success added %d keys (%v), want exactly one", len(added), added)
			return
		}
		k := added[0]
		if !strings.HasPrefix(k, cdiPrefix) {
			msg = fmt.Sprintf("added key %q lacks the CDI prefix", k)
			return
		}
		if !model.K8sAnnotationKey(k) {
			msg = fmt.Sprintf("added key %q is not a legal Kubernetes annotation key", k)
			return
		}
		if c.Plugin == "" || c.ID == "" {
			msg = "succeeded with an empty plugin name or device id"
			return
		}
		keys, devs, perr := cdi.ParseAnnotations(map[string]string{k: out[k]})
		if perr != nil {
			msg = fmt.Sprintf("value %q of the added key does not parse back: %v", out[k], perr)
			return
		}
		if len(keys) != 1 || keys[0] != k {
			msg = fmt.Sprintf("parse back returned keys %v", keys)
			return
		}
		if len(devs) != len(c.Devices) {
			msg = fmt.Sprintf("parse back returned devices %q, want %q", devs, c.Devices)
			return
		}
		for i := range devs {
			if devs[i] != c.Devices[i] {
				msg = fmt.Sprintf("parse back returned devices %q, want %q", devs, c.Devices)
				return
			}
		}
		if !mustSucceed {
			// reachable only if the key is legal and the devices parse back although
			// the model calls the request invalid: the model and the code disagree
			msg = fmt.Sprintf("request the model calls invalid (name %q, key used=%v) succeeded", name, used)
		}
	})
	if err != nil {
		return err.Error()
	}
	return msg
}

// checkC15Parse is the oracle for ParseAnnotations on an arbitrary map.
func checkC15Parse(m map[string]string) (msg string) {
	err := catch(func() {
		snap := copyMap(m)
		keys, devs, perr := cdi.ParseAnnotations(m)
		if !reflect.DeepEqual(m, snap) {
			msg = "ParseAnnotations modified its argument"
			return
		}
		allOK := true
		var cdiKeys []string
		for k, v := range snap {
			if !strings.HasPrefix(k, cdiPrefix) {
				continue
			}
			cdiKeys = append(cdiKeys, k)
			for _, d := range strings.Split(v, ",") {
				if _, _, _, ok := model.QualifiedName(d); !ok {
					allOK = false
				}
			}
		}
		if !allOK {
			if perr == nil {
				msg = fmt.Sprintf("a device name that is not fully qualified was accepted: %v -> %v", snap, devs)
			} else if len(keys) != 0 || len(devs) != 0 {
				msg = fmt.Sprintf("error returned together with non-empty results %v %v", keys, devs)
			}
			return
		}
		if perr != nil {
			msg = fmt.Sprintf("well-formed annotations rejected: %v", perr)
			return
		}
		got := append([]string{}, keys...)
		sort.Strings(got)
		sort.Strings(cdiKeys)
		if !reflect.DeepEqual(got, cdiKeys) && !(len(got) == 0 && len(cdiKeys) == 0) {
			msg = fmt.Sprintf("returned keys %v, want exactly the CDI keys %v", keys, cdiKeys)
			return
		}
		var want []string
		for _, k := range keys {
			want = append(want, strings.Split(snap[k], ",")...)
		}
		if !reflect.DeepEqual(devs, want) && !(len(devs) == 0 && len(want) == 0) {
			msg = fmt.Sprintf("returned devices %q, want %q (keys in returned order %v)", devs, want, keys)
		}
	})
	if err != nil {
		return err.Error()
	}
	return msg
}

// single characters, and lone bytes that are not UTF-8 (read as Latin-1 they would be letters, a sign, a digit-like symbol)
var c15Chars = []string{"a", "Z", "0", "_", "-", ".", "/", ":", "=", " ", "é", ",", "\x00", "+", "\xe9", "\xb5", "\xc4", "\xff", "\xb2", "\x80"}

func joinStrs(l []string) string { return strings.Join(l, "") }

func genC15Str(t *rapid.T, label string) string {
	switch rapid.IntRange(0, 5).Draw(t, label+"Kind") {
	case 0:
		return rapid.StringMatching(`[a-z0-9]([a-z0-9._-]{0,6}[a-z0-9])?`).Draw(t, label)
	case 1:
		// lengths around the 63-character limit, every class at the edges
		n := rapid.IntRange(26, 36).Draw(t, label+"Len")
		first := rapid.SampledFrom(c15Chars).Draw(t, label+"First")
		last := rapid.SampledFrom(c15Chars).Draw(t, label+"Last")
		mid := strings.Repeat(string(rapid.SampledFrom([]rune{'a', '.', '-', '_', '0'}).Draw(t, label+"Fill")), n)
		if rapid.Bool().Draw(t, label+"Poison") {
			i := rapid.IntRange(0, n-1).Draw(t, label+"At")
			mid = mid[:i] + rapid.SampledFrom(c15Chars).Draw(t, label+"Mid") + mid[i+1:]
		}
		return first + mid + last
	case 2:
		return ""
	default:
		return joinStrs(rapid.SliceOfN(rapid.SampledFrom(c15Chars), 0, 5).Draw(t, label))
	}
}

var genQName = rapid.StringMatching(`[a-z]([a-z0-9_.-]{0,3}[a-z0-9])?/[a-z]([a-z0-9_.-]{0,3}[a-z0-9])?=[a-z0-9]([a-z0-9_.:-]{0,3}[a-z0-9])?`)

func genC15(t *rapid.T) c15Case {
	c := c15Case{Plugin: genC15Str(t, "plugin"), ID: genC15Str(t, "id")}
	// keep the total around the limit often
	if rapid.IntRange(0, 3).Draw(t, "aroundLimit") == 0 {
		total := rapid.IntRange(60, 66).Draw(t, "total")
		pl := rapid.IntRange(1, total-2).Draw(t, "pluginLen")
		c.Plugin = strings.Repeat("p", pl)
		c.ID = strings.Repeat("i", total-1-pl)
		if rapid.Bool().Draw(t, "slashInID") && len(c.ID) > 2 {
			c.ID = c.ID[:1] + "/" + c.ID[2:]
		}
	}
	nd := rapid.IntRange(1, 4).Draw(t, "nDevices")
	for i := 0; i < nd; i++ {
		if rapid.IntRange(0, 5).Draw(t, fmt.Sprintf("dev%dBad", i)) == 0 {
			c.Devices = append(c.Devices, rapid.OneOf(rapid.Just(""), rapid.Just("a/b=c,d"), rapid.Just("a/b=c,d/e=f"), rapid.Just("a/b=c,d/e=f,g/h=i"), rapid.Just("a/b=c,"), rapid.Just("a/b"), rapid.Just("a=b"),
				rapid.Map(rapid.SliceOfN(rapid.SampledFrom(c15Chars), 0, 6), joinStrs)).Draw(t, fmt.Sprintf("dev%d", i)))
		} else {
			c.Devices = append(c.Devices, genQName.Draw(t, fmt.Sprintf("dev%d", i)))
		}
	}
	switch rapid.IntRange(0, 3).Draw(t, "init") {
	case 0:
		c.InitNil = true
	case 1:
		c.Init = map[string]string{}
	default:
		c.Init = map[string]string{}
		for i, n := 0, rapid.IntRange(1, 3).Draw(t, "nInit"); i < n; i++ {
			switch rapid.IntRange(0, 2).Draw(t, fmt.Sprintf("init%dKind", i)) {
			case 0:
				c.Init[rapid.SampledFrom([]string{"foo", "example.com/bar", "cdi.k8s.io", "cdi.k8s.iox/y", "", "CDI.K8S.IO/x"}).Draw(t, fmt.Sprintf("foreign%d", i))] = "v"
			case 1:
				c.Init[cdiPrefix+rapid.StringMatching(`[a-z]{1,3}_[a-z]{1,3}`).Draw(t, fmt.Sprintf("cdiKey%d", i))] = genQName.Draw(t, fmt.Sprintf("cdiVal%d", i))
			case 2:
				// the key about to be generated
				c.Init[cdiPrefix+c.Plugin+"_"+strings.ReplaceAll(c.ID, "/", "_")] = rapid.SampledFrom([]string{"old/value=kept", "", "x"}).Draw(t, fmt.Sprintf("usedVal%d", i))
			}
		}
	}
	return c
}

func (c c15Case) nontrivial() bool {
	n := len(c.Plugin) + 1 + len(c.ID)
	if n >= 61 && n <= 65 {
		return true
	}
	for k := range c.Init {
		if strings.HasPrefix(k, cdiPrefix) {
			return true
		}
	}
	name := c.Plugin + "_" + strings.ReplaceAll(c.ID, "/", "_")
	return len(c.Devices) >= 2 && modelK8sName(name) && allQualified(c.Devices)
}

func (c c15Case) labels() []string {
	name := c.Plugin + "_" + strings.ReplaceAll(c.ID, "/", "_")
	l := []string{fmt.Sprintf("devices-%d", len(c.Devices))}
	if c.InitNil {
		l = append(l, "init-nil")
	}
	if _, used := c.Init[cdiPrefix+name]; used {
		l = append(l, "key-already-used")
	}
	if c.Plugin != "" && c.ID != "" && modelK8sName(name) {
		l = append(l, "name-valid")
	} else {
		l = append(l, "name-invalid")
	}
	if allQualified(c.Devices) {
		l = append(l, "devices-valid")
	} else {
		l = append(l, "devices-invalid")
	}
	if n := len(name); n >= 61 && n <= 65 {
		l = append(l, fmt.Sprintf("name-len-%d", n))
	}
	if strings.Contains(c.ID, "/") {
		l = append(l, "slash-in-id")
	}
	if n := len(name); n >= 2 && (name[0] >= 0x80 || name[n-1] >= 0x80) && c.Plugin != "" && c.ID != "" {
		// valid but for a byte >= 0x80 at one end
		b := []byte(name)
		if b[0] >= 0x80 {
			b[0] = 'a'
		}
		if b[n-1] >= 0x80 {
			b[n-1] = 'a'
		}
		if utf8.ValidString(name) == false && modelK8sName(string(b)) {
			l = append(l, "valid-but-for-a-non-utf8-byte-at-an-end")
		}
	}
	return l
}

func canonJSON(v any) string { b, _ := json.Marshal(v); return string(b) }

func TestC15Rapid(t *testing.T) {
	rec := stats.For("C15", "rapid")
	rapid.Check(t, func(t *rapid.T) {
		c := genC15(t)
		if msg := checkC15Update(c); msg != "" {
			t.Fatalf("C15 violated on %s: %s", canonJSON(c), msg)
		}
		// ParseAnnotations on the initial map and on a generated map
		m := copyMap(c.Init)
		if m == nil && !c.InitNil {
			m = map[string]string{}
		}
		if rapid.Bool().Draw(t, "addValues") {
			if m == nil {
				m = map[string]string{}
			}
			m[cdiPrefix+"gen_1"] = strings.Join(c.Devices, ",")
			m["foreign/"+c.Plugin] = strings.Join(c.Devices, ",")
		}
		if msg := checkC15Parse(m); msg != "" {
			t.Fatalf("C15 violated (ParseAnnotations) on %v: %s", m, msg)
		}
		// a pod with many devices: 2..5 CDI keys with 1..12 devices each (the order within one key is the request's)
		if rapid.IntRange(0, 3).Draw(t, "manyDevices") == 0 {
			big := map[string]string{"unrelated": "x"}
			total := 0
			for i, nk := 0, rapid.IntRange(2, 5).Draw(t, "bigKeys"); i < nk; i++ {
				var ds []string
				for j, nd := 0, rapid.IntRange(1, 12).Draw(t, fmt.Sprintf("bigDevs%d", i)); j < nd; j++ {
					ds = append(ds, fmt.Sprintf("vendor%d.com/class=dev%d", i, rapid.IntRange(0, 99).Draw(t, fmt.Sprintf("bigDev%d_%d", i, j))))
				}
				total += len(ds)
				big[cdiPrefix+fmt.Sprintf("%s_%d", rapid.SampledFrom([]string{"z-plugin", "a.plugin", "m_plugin"}).Draw(t, fmt.Sprintf("bigPlugin%d", i)), i)] = strings.Join(ds, ",")
			}
			if msg := checkC15Parse(big); msg != "" {
				t.Fatalf("C15 violated (ParseAnnotations) on %v: %s", big, msg)
			}
			if total > 12 {
				rec.Label("parse-more-than-12-devices-over-several-keys")
			}
		}
		// values nobody's helper wrote: a list of qualified names, decorated the way hand-written or templated
		// annotations are (blanks and line ends around the value or around a comma, stray commas)
		if rapid.Bool().Draw(t, "decorated") {
			var names []string
			for i, n := 0, rapid.IntRange(1, 3).Draw(t, "decN"); i < n; i++ {
				names = append(names, genQName.Draw(t, fmt.Sprintf("decName%d", i)))
			}
			ws := rapid.SampledFrom([]string{" ", "\t", "\n", "\r\n", "  "}).Draw(t, "decWs")
			v := strings.Join(names, ",")
			how := rapid.SampledFrom([]string{"leading", "trailing", "both", "after-comma", "before-comma", "trailing-comma", "leading-comma", "double-comma", "none"}).Draw(t, "decHow")
			switch how {
			case "leading":
				v = ws + v
			case "trailing":
				v += ws
			case "both":
				v = ws + v + ws
			case "after-comma":
				v = strings.Join(names, ","+ws)
			case "before-comma":
				v = strings.Join(names, ws+",")
			case "trailing-comma":
				v += ","
			case "leading-comma":
				v = "," + v
			case "double-comma":
				v = strings.Join(names, ",,")
			}
			dm := map[string]string{cdiPrefix + "dec_1": v}
			if rapid.Bool().Draw(t, "decWithGood") {
				dm[cdiPrefix+"aaa_0"] = genQName.Draw(t, "decGood")
			}
			if msg := checkC15Parse(dm); msg != "" {
				t.Fatalf("C15 violated (ParseAnnotations) on %q: %s", dm, msg)
			}
			rec.Label("decorated:" + how)
		}
		rec.Case(c.nontrivial(), canonJSON(c), func() any { return c }, c.labels()...)
	})
}

// TestC15Exhaustive: every (plugin, id) with combined length <= 4 over an
// 8-symbol alphabet, and every total length 1..70 for every split point.
func TestC15Exhaustive(t *testing.T) {
	rec := stats.For("C15", "exhaustive")
	alphabet := []string{"a", "Z", "0", "_", "-", ".", "/", "é"}
	var all []string
	var walk func(p string, d int)
	walk = func(p string, d int) {
		all = append(all, p)
		if d == 4 {
			return
		}
		for _, a := range alphabet {
			walk(p+a, d+1)
		}
	}
	walk("", 0)
	devs := []string{"v.com/c=d"}
	idx, n := shard()
	count := 0
	for _, p := range all {
		for _, id := range all {
			if len([]rune(p))+len([]rune(id)) > 4 {
				continue
			}
			count++
			if count%n != idx {
				continue
			}
			for _, used := range []bool{false, true} {
				c := c15Case{Plugin: p, ID: id, Devices: devs, Init: map[string]string{"foo": "bar"}}
				if used {
					c.Init[cdiPrefix+p+"_"+strings.ReplaceAll(id, "/", "_")] = "kept"
				}
				if msg := checkC15Update(c); msg != "" {
					rp := saveReplay("C15", "update", c)
					t.Fatalf("C15 violated on %s: %s\nreplay: %s", canonJSON(c), msg, rp)
				}
				rec.Case(c.nontrivial(), canonJSON(c), func() any { return c }, c.labels()...)
			}
		}
	}
	if idx == 0 {
		for total := 1; total <= 70; total++ {
			for pl := 0; pl <= total-1; pl++ {
				c := c15Case{Plugin: strings.Repeat("p", pl), ID: strings.Repeat("i", total-1-pl), Devices: devs, InitNil: true}
				if msg := checkC15Update(c); msg != "" {
					rp := saveReplay("C15", "update", c)
					t.Fatalf("C15 violated on %s: %s\nreplay: %s", canonJSON(c), msg, rp)
				}
				rec.Case(c.nontrivial(), canonJSON(c), func() any { return c }, append(c.labels(), "length-sweep")...)
			}
		}
	}
}

func TestC15Regress(t *testing.T) {
	rec := stats.For("C15", "regress")
	for _, rc := range loadRegressions(t, "C15") {
		var c c15Case
		if err := json.Unmarshal(rc.Case, &c); err != nil {
			t.Fatalf("bad C15 regression: %v", err)
		}
		if msg := checkC15Update(c); msg != "" {
			rp := saveReplay("C15", "update", c)
			t.Fatalf("C15 violated on regression [%s] %s: %s\nreplay: %s", rc.Note, canonJSON(c), msg, rp)
		}
		m := copyMap(c.Init)
		if msg := checkC15Parse(m); msg != "" {
			t.Fatalf("C15 violated (ParseAnnotations) on regression [%s]: %s", rc.Note, msg)
		}
		rec.Case(true, canonJSON(c), func() any { return c }, "regression")
	}
}
