package props

import (
	"crypto/sha256"
	"encoding/json"
	"fmt"
	"os"
	"path/filepath"
	"sort"
	"strings"
	"syscall"
	"testing"

	"pgregory.net/rapid"
	"tags.cncf.io/container-device-interface/pkg/cdi"
	specs "tags.cncf.io/container-device-interface/specs-go"
	"tags.cncf.io/container-device-interface/verifharness/gen"
	"tags.cncf.io/container-device-interface/verifharness/stats"
)

// snapTree records every entry below root: type, size and content hash.
func snapTree(root string) map[string]string {
	out := map[string]string{}
	_ = filepath.Walk(root, func(p string, info os.FileInfo, err error) error {
		if err != nil || p == root {
			return nil
		}
		rel, _ := filepath.Rel(root, p)
		switch {
		case info.IsDir():
			out[rel] = "dir"
		case info.Mode()&os.ModeSymlink != 0:
			tgt, _ := os.Readlink(p)
			out[rel] = "link:" + tgt
		case !info.Mode().IsRegular():
			out[rel] = "special:" + info.Mode().Type().String() // pipes and sockets are not read
		default:
			b, _ := os.ReadFile(p)
			out[rel] = fmt.Sprintf("file:%d:%x", len(b), sha256.Sum256(b))
		}
		return nil
	})
	return out
}

// diffTree lists the paths that differ between two snapshots.
func diffTree(a, b map[string]string) []string {
	var out []string
	for k, v := range a {
		if w, ok := b[k]; !ok {
			out = append(out, "-"+k)
		} else if w != v {
			out = append(out, "~"+k)
		}
	}
	for k := range b {
		if _, ok := a[k]; !ok {
			out = append(out, "+"+k)
		}
	}
	sort.Strings(out)
	return out
}

var c16IDs = []string{"", "id", "0", "a/b", "/", "//", "..", "../..", "../../x", "./x", ".", ".hidden", "x.json", "x.yaml", "a.b.c", "id.json/x", "x/../y",
	"a b", "é", "\x00", "a\x00b", "-", "_", "%s", "a\nb", "\\", "a\\b", "..json", "x.yml", "x.JSON"}

type c16Case struct {
	Kind     string   `json:"kind"`
	ID       string   `json:"id"`
	Gen      string   `json:"generator"`
	Ext      string   `json:"ext"`
	Dirs     []string `json:"dirs"`
	LastDir  string   `json:"lastDir"` // existing, missing, nested-missing
	Pre      []string `json:"preexisting"`
	Name     string   `json:"name"`
	WriteErr string   `json:"writeErr,omitempty"`
}

func TestC16Rapid(t *testing.T) {
	rec := stats.For("C16", "rapid")
	sc := newScratch(t)
	rapid.Check(t, func(t *rapid.T) {
		root := sc.dir()
		defer os.RemoveAll(root)
		vendors := []string{"v1.com", "v", "a.b.c", "x-y_z"}
		classes := []string{"gpu", "net.x", "c", "gpu.json", "x.yaml", "a.json.b", "y.yaml.json"}
		s := gen.Spec(t, "s", gen.SpecOpts{Vendors: vendors, Classes: classes, DevNames: []string{"d0", "d1", "2d"}, MaxDevices: 2,
			Edit: gen.EditOpts{NoHost: true, MaxPer: 1}})
		vendor, class, _ := strings.Cut(s.Kind, "/")
		var id string
		if rapid.IntRange(0, 3).Draw(t, "idKind") == 0 {
			id = gen.HostileString().Draw(t, "idHostile")
			if len(id) < 300 && rapid.IntRange(0, 9).Draw(t, "idLong") == 0 {
				id = strings.Repeat("L", 300)
			}
		} else {
			id = rapid.SampledFrom(c16IDs).Draw(t, "id")
		}
		if rapid.IntRange(0, 5).Draw(t, "nearNameMax") == 0 {
			// make the final file name 236..256 bytes long (NAME_MAX is 255)
			want := rapid.IntRange(236, 256).Draw(t, "nameLen")
			fixed := len(vendor) + 1 + len(class) + 1 + len(".yaml")
			if want > fixed+1 {
				id = strings.Repeat("n", want-fixed)
			}
		}
		c := c16Case{Kind: s.Kind, ID: id}
		var name string
		var gerr error
		switch c.Gen = rapid.SampledFrom([]string{"GenerateSpecName", "GenerateTransientSpecName", "GenerateNameForSpec", "GenerateNameForTransientSpec"}).Draw(t, "generator"); c.Gen {
		case "GenerateSpecName":
			name = cdi.GenerateSpecName(vendor, class)
		case "GenerateTransientSpecName":
			name = cdi.GenerateTransientSpecName(vendor, class, id)
		case "GenerateNameForSpec":
			name, gerr = cdi.GenerateNameForSpec(s)
		case "GenerateNameForTransientSpec":
			name, gerr = cdi.GenerateNameForTransientSpec(s, id)
		}
		fail := func(msg string) {
			t.Fatalf("C16 violated: %s\ncase: %s", msg, canonJSON(c))
		}
		if gerr != nil {
			fail(fmt.Sprintf("%s failed on a valid Spec: %v", c.Gen, gerr))
		}
		transient := strings.Contains(c.Gen, "Transient")
		// (1) a single path component
		if name == "" || name == "." || name == ".." || strings.Contains(name, "/") {
			fail(fmt.Sprintf("generated name %q is not a single path component", name))
		}
		if strings.Contains(c.Gen, "ForSpec") || strings.Contains(c.Gen, "ForTransient") {
			// the Spec-based generators agree with the vendor/class based ones
			want := cdi.GenerateSpecName(vendor, class)
			if transient {
				want = cdi.GenerateTransientSpecName(vendor, class, id)
			}
			if name != want {
				fail(fmt.Sprintf("%s gives %q but the vendor/class generator gives %q", c.Gen, name, want))
			}
		}
		c.Ext = rapid.SampledFrom([]string{"", "", ".json", ".yaml"}).Draw(t, "ext")
		name += c.Ext
		c.Name = name

		// directory list
		nd := rapid.IntRange(1, 3).Draw(t, "nDirs")
		var dirs []string
		for i := 0; i < nd; i++ {
			dirs = append(dirs, filepath.Join(root, fmt.Sprintf("d%d", i)))
		}
		c.LastDir = rapid.SampledFrom([]string{"existing", "existing", "missing", "nested-missing"}).Draw(t, "lastDir")
		if c.LastDir == "nested-missing" {
			dirs[nd-1] = filepath.Join(root, "deep", "er", fmt.Sprintf("d%d", nd-1))
		}
		for i, d := range dirs {
			if i == nd-1 && c.LastDir != "existing" {
				continue
			}
			if err := os.MkdirAll(d, 0o755); err != nil {
				t.Fatal(err)
			}
		}
		c.Dirs = dirs
		last := dirs[nd-1]
		target := filepath.Join(last, name)
		isJSON := strings.HasSuffix(name, ".json")
		if !isJSON && !strings.HasSuffix(name, ".yaml") {
			target += ".yaml"
		}
		// pre-existing content
		otherSpec := func(tag string) []byte {
			o := &specs.Spec{Version: "0.6.0", Kind: s.Kind}
			for _, d := range s.Devices {
				o.Devices = append(o.Devices, specs.Device{Name: d.Name, ContainerEdits: specs.ContainerEdits{Env: []string{"OTHER=" + tag}}})
			}
			b, _ := json.Marshal(o)
			return b
		}
		sameDirRival := false
		writable := !strings.Contains(name, "\x00") && len(filepath.Base(target)) <= 255
		if nd > 1 && rapid.Bool().Draw(t, "preLower") {
			_ = os.WriteFile(filepath.Join(dirs[0], "lower.json"), otherSpec("lower"), 0o644)
			c.Pre = append(c.Pre, "same-devices-in-lower-directory")
		}
		if c.LastDir == "existing" {
			if rapid.IntRange(0, 2).Draw(t, "preTarget") == 0 && writable {
				// what is at the target name already: a regular file, or a symbolic link (to a Spec outside the Spec
				// directories, to the Spec in the lower directory, to nothing): the write replaces the link itself
				switch kind := rapid.SampledFrom([]string{"file", "file", "link-to-bystander", "link-to-lower", "dangling-link"}).Draw(t, "preTargetKind"); kind {
				case "file":
					_ = os.WriteFile(target, otherSpec("old-target"), 0o644)
					c.Pre = append(c.Pre, "file-at-target")
				case "link-to-bystander":
					_ = os.Symlink(filepath.Join(root, "bystander.json"), target)
					c.Pre = append(c.Pre, "symlink-at-target")
				case "link-to-lower":
					_ = os.Symlink(filepath.Join(dirs[0], "lower.json"), target) // dangling unless that file was drawn
					c.Pre = append(c.Pre, "symlink-at-target")
				default:
					_ = os.Symlink(filepath.Join(root, "no-such-target"), target)
					c.Pre = append(c.Pre, "symlink-at-target")
				}
			}
			if rapid.IntRange(0, 3).Draw(t, "preSameStem") == 0 && writable {
				stem := strings.TrimSuffix(strings.TrimSuffix(target, ".yaml"), ".json")
				alt := stem + ".json"
				if isJSON {
					alt = stem + ".yaml"
				}
				if alt != target && len(filepath.Base(alt)) <= 255 {
					_ = os.WriteFile(alt, otherSpec("same-stem"), 0o644)
					sameDirRival = true
					c.Pre = append(c.Pre, "same-stem-other-extension")
				}
			}
			if rapid.IntRange(0, 3).Draw(t, "preSubdir") == 0 {
				// a subdirectory (never scanned) with a Spec defining the same devices: an old copy moved aside
				sub := filepath.Join(last, rapid.SampledFrom([]string{"old", "0-backup", "zz.d"}).Draw(t, "subdirName"))
				_ = os.MkdirAll(sub, 0o755)
				_ = os.WriteFile(filepath.Join(sub, "moved-aside.yaml"), otherSpec("subdir"), 0o644)
				c.Pre = append(c.Pre, "same-devices-in-a-subdirectory-of-the-last-directory")
			}
			if rapid.IntRange(0, 3).Draw(t, "preSpecial") == 0 {
				// an entry that is neither a regular file nor a directory, under a name that sorts before or after
				// whatever is generated and that the scan ignores
				sp := filepath.Join(last, rapid.SampledFrom([]string{"!first", "00-ctl", "~last"}).Draw(t, "specialName"))
				switch kind := rapid.SampledFrom([]string{"fifo", "socket", "link-to-directory", "dangling-link"}).Draw(t, "specialKind"); kind {
				case "fifo":
					_ = syscall.Mkfifo(sp, 0o644)
				case "socket":
					_ = syscall.Mknod(sp, syscall.S_IFSOCK|0o644, 0)
				case "link-to-directory":
					_ = os.Symlink(filepath.Join(root, "sibling"), sp)
				case "dangling-link":
					_ = os.Symlink(filepath.Join(root, "no-such-target"), sp)
				}
				c.Pre = append(c.Pre, "special-entry-in-last-directory")
			}
			if rapid.IntRange(0, 3).Draw(t, "preUnrelated") == 0 {
				_ = os.WriteFile(filepath.Join(last, "unrelated.yaml"), []byte(`{"cdiVersion":"0.6.0","kind":"other.vendor/thing","devices":[{"name":"z","containerEdits":{"env":["Z=1"]}}]}`), 0o644)
				c.Pre = append(c.Pre, "unrelated-spec-in-last-directory")
			}
		}
		// bystanders outside the Spec directories
		_ = os.WriteFile(filepath.Join(root, "bystander.json"), otherSpec("bystander"), 0o644)
		_ = os.MkdirAll(filepath.Join(root, "sibling"), 0o755)

		// the last directory may also be listed earlier (possibly spelled differently), with the others in between:
		// it still is the highest-priority directory
		cfg := dirs
		if nd > 1 && rapid.IntRange(0, 2).Draw(t, "lastAlsoFirst") == 0 {
			cfg = append([]string{last + rapid.SampledFrom([]string{"", "/", "/."}).Draw(t, "respell")}, dirs...)
			c.Pre = append(c.Pre, "last-directory-also-listed-first")
		}
		// the caller's own slice goes into WithSpecDirs; in half of the cases the caller re-uses it afterwards for something
		// else: the cache keeps the directories it was configured with
		passed := append([]string{}, cfg...)
		cache, _ := cdi.NewCache(cdi.WithSpecDirs(passed...), cdi.WithAutoRefresh(false))
		if rapid.Bool().Draw(t, "callerReusesItsSlice") {
			decoy := filepath.Join(root, "decoy")
			_ = os.MkdirAll(decoy, 0o755)
			for i := range passed {
				passed[i] = decoy
			}
			c.Pre = append(c.Pre, "caller-overwrote-the-slice-it-passed")
		}
		before := snapTree(root)
		var werr error
		if perr := catch(func() { werr = cache.WriteSpec(s, name) }); perr != nil {
			fail(fmt.Sprintf("WriteSpec panicked: %v", perr))
		}
		after := snapTree(root)
		relTarget, _ := filepath.Rel(root, target)
		// directories that may have been created on the way to the last directory
		allowedDirs := map[string]bool{}
		for p := last; p != root && strings.HasPrefix(p, root); p = filepath.Dir(p) {
			rel, _ := filepath.Rel(root, p)
			allowedDirs[rel] = true
		}
		if werr != nil {
			c.WriteErr = werr.Error()
			if writable {
				fail(fmt.Sprintf("WriteSpec of a valid Spec under name %q failed: %v", name, werr))
			}
			for _, d := range diffTree(before, after) {
				p := d[1:]
				if d[0] == '+' && (allowedDirs[p] || (strings.HasSuffix(p, ".tmp") && filepath.Dir(p) == filepath.Dir(relTarget))) {
					continue
				}
				fail(fmt.Sprintf("failed write changed %s", d))
			}
			rec.Case(true, canonJSON(c), func() any { return c }, "write-failed", "gen:"+c.Gen)
			return
		}
		// (2) exactly the target was created or replaced
		for _, d := range diffTree(before, after) {
			p := d[1:]
			if p == relTarget && (d[0] == '+' || d[0] == '~') {
				continue
			}
			if d[0] == '+' && allowedDirs[p] && c.LastDir != "existing" {
				continue
			}
			fail(fmt.Sprintf("WriteSpec touched something other than %s: %s (all differences: %v)", relTarget, d, diffTree(before, after)))
		}
		data, rerr := os.ReadFile(target)
		if rerr != nil {
			fail(fmt.Sprintf("WriteSpec succeeded but the expected file %s does not exist (differences: %v)", relTarget, diffTree(before, after)))
		}
		if got := len(data) > 0 && data[0] == '{'; isJSON && !got {
			fail("a name ending in .json must give a JSON file")
		}
		rs, rerr := cdi.ReadSpec(target, 0)
		if rerr != nil {
			fail(fmt.Sprintf("written file does not load: %v", rerr))
		}
		if specImage(rs.Spec) != specImage(s) {
			fail("written file reads back different: " + firstDiff(specImage(s), specImage(rs.Spec)))
		}
		// (3) after a refresh the devices resolve to the target with top priority
		_ = cache.Refresh()
		for _, d := range s.Devices {
			q := s.Kind + "=" + d.Name
			dev := cache.GetDevice(q)
			if sameDirRival {
				if dev != nil {
					fail(fmt.Sprintf("%s resolves although two files of the last directory define it", q))
				}
				continue
			}
			if dev == nil {
				fail(fmt.Sprintf("%s does not resolve after writing it to the last directory (errors: %v)", q, cache.GetErrors()))
			}
			if dev.GetSpec().GetPath() != target || dev.GetSpec().GetPriority() != len(cfg)-1 {
				fail(fmt.Sprintf("%s resolves to %s (priority %d), want %s (priority %d)", q, dev.GetSpec().GetPath(), dev.GetSpec().GetPriority(), target, len(cfg)-1))
			}
			a, _ := json.Marshal(d)
			b, _ := json.Marshal(dev.Device)
			if string(a) != string(b) {
				fail(fmt.Sprintf("%s resolves to another definition", q))
			}
		}
		// (4) remove by the same name deletes exactly that file; removing again succeeds and changes nothing
		mid := snapTree(root)
		if err := cache.RemoveSpec(name); err != nil {
			fail(fmt.Sprintf("RemoveSpec(%q) failed: %v", name, err))
		}
		if d := diffTree(mid, snapTree(root)); len(d) != 1 || d[0] != "-"+relTarget {
			fail(fmt.Sprintf("RemoveSpec must delete exactly %s, tree differences: %v", relTarget, d))
		}
		mid = snapTree(root)
		if err := cache.RemoveSpec(name); err != nil {
			fail(fmt.Sprintf("second RemoveSpec(%q) failed: %v", name, err))
		}
		never := name + "-never-written"
		if len(never) < 200 {
			if err := cache.RemoveSpec(never); err != nil {
				fail(fmt.Sprintf("RemoveSpec of a name that does not exist failed: %v", err))
			}
		}
		if d := diffTree(mid, snapTree(root)); len(d) != 0 {
			fail(fmt.Sprintf("removing a missing name changed the tree: %v", d))
		}
		labels := []string{"gen:" + c.Gen, "ext:" + c.Ext, "lastdir:" + c.LastDir, fmt.Sprintf("dirs-%d", nd)}
		if n := len(filepath.Base(target)); n >= 236 {
			labels = append(labels, "name-length-236-to-255")
		}
		nontriv := c.LastDir != "existing" || len(c.Pre) > 0
		if transient && strings.ContainsAny(id, "/.") {
			labels = append(labels, "id-with-slash-or-dot")
			nontriv = true
		}
		if strings.HasSuffix(class, ".json") || strings.HasSuffix(class, ".yaml") {
			labels = append(labels, "class-ends-in-spec-extension")
			nontriv = true
		}
		for _, p := range c.Pre {
			labels = append(labels, "pre:"+p)
		}
		rec.Case(nontriv, canonJSON(c), func() any { return c }, labels...)
	})
}
