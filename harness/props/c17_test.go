package props

import (
	"bytes"
	"encoding/json"
	"fmt"
	"os"
	"os/exec"
	"path/filepath"
	"sort"
	"strconv"
	"strings"
	"sync"
	"testing"

	"pgregory.net/rapid"
	"tags.cncf.io/container-device-interface/schema"
	specs "tags.cncf.io/container-device-interface/specs-go"
	"tags.cncf.io/container-device-interface/verifharness/gen"
	"tags.cncf.io/container-device-interface/verifharness/model"
	"tags.cncf.io/container-device-interface/verifharness/stats"
)

var (
	d7Once sync.Once
	d7     *model.Draft07
	d7Err  error
)

func repoDir() string {
	if d := os.Getenv("VERIF_REPO_DIR"); d != "" {
		return d
	}
	return "/repo"
}

func draft07(t fataler) *model.Draft07 {
	d7Once.Do(func() { d7, d7Err = model.LoadDraft07(filepath.Join(repoDir(), "schema"), "schema.json") })
	if d7Err != nil {
		t.Fatalf("VERIF-UNDECIDED cannot load the shipped schema files into the model: %v", d7Err)
	}
	return d7
}

// ---------------------------------------------------------------- document generator

type treePath []any // string keys and int indexes

func walkTree(t any, p treePath, visit func(p treePath, v any)) {
	visit(p, t)
	switch v := t.(type) {
	case map[string]any:
		keys := make([]string, 0, len(v))
		for k := range v {
			keys = append(keys, k)
		}
		sort.Strings(keys)
		for _, k := range keys {
			walkTree(v[k], append(append(treePath{}, p...), k), visit)
		}
	case []any:
		for i, x := range v {
			walkTree(x, append(append(treePath{}, p...), i), visit)
		}
	}
}

func setAt(root any, p treePath, val any, remove bool) any {
	if len(p) == 0 {
		return val
	}
	cur := root
	for _, k := range p[:len(p)-1] {
		switch c := cur.(type) {
		case map[string]any:
			cur = c[k.(string)]
		case []any:
			cur = c[k.(int)]
		}
	}
	last := p[len(p)-1]
	switch c := cur.(type) {
	case map[string]any:
		if remove {
			delete(c, last.(string))
		} else {
			c[last.(string)] = val
		}
	case []any:
		if !remove {
			c[last.(int)] = val
		}
	}
	return root
}

var c17Numbers = []string{"-1", "0", "1", "4294967295", "4294967296", "9007199254740993", "-9007199254740993", "9223372036854775807",
	"9223372036854775808", "-9223372036854775808", "-9223372036854775809", "18446744073709551615", "18446744073709551616", "1.5", "-0.5", "1.0", "0.0",
	"2147483648", "1180591620717411303424",
	// values whose float64 rounding crosses a bound or the integer test
	"4294967295.00000001", "4294967294.99999999", "9223372036854775807.5", "0.99999999999999999", "1.0000000000000000001", "-0.00000000000000000001",
	"9223372036854775806", "-9223372036854775807", "4294967295.0", "4294967296.0", "1e2", "1E+2", "12e-1",
	// valid JSON numbers that float64 cannot hold at all
	"1e400", "-1E+999", "1e-400", "1" + strings.Repeat("0", 320), "-" + strings.Repeat("9", 310) + ".5"}

func c17Replacement(t *rapid.T, label string, old any) any {
	switch rapid.IntRange(0, 9).Draw(t, label+"kind") {
	case 0:
		return "str"
	case 1:
		return ""
	case 2, 3:
		return json.Number(rapid.SampledFrom(c17Numbers).Draw(t, label+"num"))
	case 4:
		return rapid.Bool().Draw(t, label+"bool")
	case 5:
		return nil
	case 6:
		return map[string]any{}
	case 7:
		return []any{}
	case 8:
		return []any{old}
	default:
		return map[string]any{"x": old}
	}
}

type c17Doc struct {
	Doc       any      `json:"doc"`
	Mutations []string `json:"mutations"`
}

func pathStr(p treePath) string {
	var sb strings.Builder
	for _, k := range p {
		fmt.Fprintf(&sb, "/%v", k)
	}
	if sb.Len() == 0 {
		return "/"
	}
	return sb.String()
}

// oddAnnotationKeys: characters whose lower-case form has another length in bytes (Kelvin sign, dotted capital I,
// Ohm and Angstrom signs, capital sharp s) before and after the '/', valid or not once lower-cased.
var oddAnnotationKeys = []string{"\u212a/", "\u212a\u212a/x", "\u0130\u0130/", "\u0130\u0130\u0130.example.com/a", "\u2126\u2126\u2126/ab", "\u212b\u212b/", "\u1e9e\u1e9e\u1e9e/n",
	"x/\u212a", "\u212a", "K\u212ak.io/\u212a\u212a", "\u0130/\u0130"}

func genC17(t *rapid.T) c17Doc {
	s := gen.Spec(t, "s", gen.SpecOpts{MaxDevices: 3, Edit: gen.EditOpts{MaxPer: 2}})
	var doc any = gen.ToTree(s)
	var c c17Doc
	k := rapid.SampledFrom([]int{0, 1, 1, 1, 2, 3}).Draw(t, "nMutations")
	for i := 0; i < k; i++ {
		l := fmt.Sprintf("m%d", i)
		var paths []treePath
		var vals []any
		walkTree(doc, nil, func(p treePath, v any) { paths = append(paths, p); vals = append(vals, v) })
		idx := rapid.IntRange(0, len(paths)-1).Draw(t, l+"node")
		p, old := paths[idx], vals[idx]
		switch kind := rapid.IntRange(0, 9).Draw(t, l+"what"); {
		case kind <= 1 && len(p) > 0:
			if _, inList := p[len(p)-1].(int); !inList {
				doc = setAt(doc, p, nil, true)
				c.Mutations = append(c.Mutations, "remove "+pathStr(p))
				continue
			}
			fallthrough
		case kind <= 5:
			if len(p) == 0 && rapid.IntRange(0, 3).Draw(t, l+"keepRoot") != 0 {
				// the root is replaced only rarely
				continue
			}
			nv := c17Replacement(t, l, old)
			doc = setAt(doc, p, nv, false)
			c.Mutations = append(c.Mutations, fmt.Sprintf("replace %s by %s", pathStr(p), canonJSON(nv)))
		case kind <= 7:
			if m, isObj := old.(map[string]any); isObj {
				name := rapid.SampledFrom([]string{"extra", "Extra", "x-y", "path2", "annotation"}).Draw(t, l+"extraName")
				m[name] = c17Replacement(t, l+"extra", "v")
				c.Mutations = append(c.Mutations, "extra member "+name+" at "+pathStr(p))
			} else if n, isNum := old.(json.Number); isNum {
				nv := json.Number(rapid.SampledFrom(c17Numbers).Draw(t, l+"num"))
				doc = setAt(doc, p, nv, false)
				c.Mutations = append(c.Mutations, fmt.Sprintf("number %s: %s -> %s", pathStr(p), n, nv))
			}
		default:
			// annotations with a malformed or odd key, at spec level or in a device
			root, isObj := doc.(map[string]any)
			if !isObj {
				continue
			}
			target := root
			if devs, ok := root["devices"].([]any); ok && len(devs) > 0 && rapid.Bool().Draw(t, l+"annInDevice") {
				if dm, ok := devs[rapid.IntRange(0, len(devs)-1).Draw(t, l+"annDev")].(map[string]any); ok {
					target = dm
				}
			}
			a, _ := target["annotations"].(map[string]any)
			if a == nil {
				a = map[string]any{}
			}
			key := rapid.SampledFrom(append(append(append([]string{}, badAnnotationKeys...), "good.key/name", "Simple", "a.b-c_d"), oddAnnotationKeys...)).Draw(t, l+"annKey")
			a[key] = rapid.SampledFrom([]any{"v", "", json.Number("3"), nil, []any{"v"}}).Draw(t, l+"annVal")
			target["annotations"] = a
			c.Mutations = append(c.Mutations, "annotation key "+fmt.Sprintf("%q", key))
		}
	}
	c.Doc = doc
	return c
}

// annotationsMalformed reports whether the document has an annotations
// object (at spec level or in a device) that the additional content check
// may reject: a key that is not a valid k8s qualified name or a total size
// above the limit, or a non-string value.
func annotationsMalformed(doc any) bool {
	root, ok := doc.(map[string]any)
	if !ok {
		return false
	}
	bad := func(v any) bool {
		a, ok := v.(map[string]any)
		if !ok {
			return false
		}
		size := 0
		for k, val := range a {
			if !model.K8sAnnotationKey(k) {
				return true
			}
			s, isStr := val.(string)
			if !isStr {
				return true
			}
			size += len(k) + len(s)
		}
		return size > 256*1024
	}
	if bad(root["annotations"]) {
		return true
	}
	if devs, ok := root["devices"].([]any); ok {
		for _, d := range devs {
			if dm, ok := d.(map[string]any); ok && bad(dm["annotations"]) {
				return true
			}
		}
	}
	return false
}

// ---------------------------------------------------------------- oracle

type c17Env struct {
	dir      string
	external *schema.Schema
	seq      uint64
}

func newC17Env(t testing.TB) *c17Env {
	e := &c17Env{dir: t.TempDir()}
	// an externally loaded copy of the shipped files
	ext := filepath.Join(e.dir, "ext")
	_ = os.MkdirAll(ext, 0o755)
	for _, f := range []string{"schema.json", "defs.json"} {
		b, err := os.ReadFile(filepath.Join(repoDir(), "schema", f))
		if err != nil {
			t.Fatalf("VERIF-UNDECIDED %v", err)
		}
		_ = os.WriteFile(filepath.Join(ext, f), b, 0o644)
	}
	s, err := schema.Load(filepath.Join(ext, "schema.json"))
	if err != nil {
		t.Fatalf("C17 violated: the shipped schema files do not load as an external schema: %v", err)
	}
	e.external = s
	return e
}

func verdictStr(err error) string {
	if err == nil {
		return "valid"
	}
	return "invalid (" + clip(err.Error(), 200) + ")"
}

// check evaluates all entry points on one document.
func (e *c17Env) check(t fataler, doc any) (msg string, info map[string]bool) {
	info = map[string]bool{}
	want, merr := draft07(t).Validate(doc)
	if merr != nil {
		t.Fatalf("VERIF-UNDECIDED the draft-07 model cannot evaluate the shipped schema: %v", merr)
	}
	info["model-valid"] = want
	malformed := annotationsMalformed(doc)
	info["annotations-malformed"] = malformed
	_, isObj := doc.(map[string]any)
	jsonData := gen.EncodeJSON(doc)
	yamlData := gen.EncodeYAML(doc)
	yamlOK := gen.YAMLDecodesTo(yamlData, doc)
	info["yaml-encodable"] = yamlOK
	jp, yp := filepath.Join(e.dir, "doc.json"), filepath.Join(e.dir, "doc.yaml")
	_ = os.WriteFile(jp, jsonData, 0o644)
	_ = os.WriteFile(yp, yamlData, 0o644)
	perr := catch(func() {
		for _, cfg := range []struct {
			name string
			s    *schema.Schema
		}{{"builtin", schema.BuiltinSchema()}, {"external copy", e.external}} {
			type result struct {
				name string
				err  error
			}
			var rs []result
			rs = append(rs, result{"ValidateData(json)", cfg.s.ValidateData(jsonData)})
			rs = append(rs, result{"ValidateFile(.json)", cfg.s.ValidateFile(jp)})
			if yamlOK {
				rs = append(rs, result{"ValidateData(yaml)", cfg.s.ValidateData(yamlData)})
				rs = append(rs, result{"ValidateFile(.yaml)", cfg.s.ValidateFile(yp)})
			}
			rs = append(rs, result{"ValidateReader(json)", cfg.s.ValidateReader(bytes.NewReader(jsonData))})
			var raw specs.Spec
			dec := json.NewDecoder(bytes.NewReader(jsonData))
			dec.DisallowUnknownFields()
			if isObj && dec.Decode(&raw) == nil && gen.CanonTree(model.SpecTree(&raw)) == gen.CanonTree(doc) { // representable in memory: judged by the harness's own serialiser, not by the struct tags
				info["in-memory-spec"] = true
				rs = append(rs, result{"Validate(spec)", cfg.s.Validate(&raw)})
				rs = append(rs, result{"ValidateType(spec)", cfg.s.ValidateType(&raw)})
				// the same object validated again after it was modified in place: the verdict follows the content
				if want && !malformed && len(raw.Devices) > 0 {
					saved := raw.Devices
					raw.Devices = nil // encodes as "devices": null, which the schema (type array) refuses
					err1, err2 := cfg.s.Validate(&raw), cfg.s.ValidateType(&raw)
					raw.Devices = saved
					if err1 == nil || err2 == nil {
						msg = fmt.Sprintf("%s schema: a Spec object was found valid, then its devices were set to nil in place, and validating the same object again still says valid (Validate: %v, ValidateType: %v)", cfg.name, err1, err2)
						return
					}
					if err := cfg.s.Validate(&raw); err != nil {
						msg = fmt.Sprintf("%s schema: the Spec object restored to its valid content is refused: %v", cfg.name, err)
						return
					}
					info["revalidated-after-modification"] = true
				}
			}
			if !malformed {
				for _, r := range rs {
					if (r.err == nil) != want {
						w := "invalid"
						if want {
							w = "valid"
						}
						msg = fmt.Sprintf("%s schema, %s: %s, but draft-07 semantics of the shipped schema files say %s", cfg.name, r.name, verdictStr(r.err), w)
						return
					}
				}
			} else if yamlOK {
				// only: the two encodings get the same verdict per entry point
				if (rs[0].err == nil) != (rs[2].err == nil) {
					msg = fmt.Sprintf("%s schema: ValidateData gives %s for the JSON encoding and %s for the YAML encoding of the same document", cfg.name, verdictStr(rs[0].err), verdictStr(rs[2].err))
					return
				}
				if (rs[1].err == nil) != (rs[3].err == nil) {
					msg = fmt.Sprintf("%s schema: ValidateFile gives %s for the .json file and %s for the .yaml file of the same document", cfg.name, verdictStr(rs[1].err), verdictStr(rs[3].err))
					return
				}
			}
		}
		// the none schema and a nil schema never reject a parseable (object) document
		if isObj {
			none, _ := schema.Load("none")
			var nilSchema *schema.Schema
			for name, s := range map[string]*schema.Schema{"none": none, "nop": schema.NopSchema(), "nil": nilSchema} {
				if err := s.ValidateData(jsonData); err != nil {
					msg = fmt.Sprintf("the %s schema rejected a JSON document: %v", name, err)
					return
				}
				if yamlOK {
					if err := s.ValidateData(yamlData); err != nil {
						msg = fmt.Sprintf("the %s schema rejected a YAML document: %v", name, err)
						return
					}
					if err := s.ValidateFile(yp); err != nil {
						msg = fmt.Sprintf("the %s schema rejected a .yaml file: %v", name, err)
						return
					}
				}
				if err := s.ValidateFile(jp); err != nil {
					msg = fmt.Sprintf("the %s schema rejected a .json file: %v", name, err)
					return
				}
				if err := s.ValidateReader(bytes.NewReader(jsonData)); err != nil {
					msg = fmt.Sprintf("the %s schema rejected a JSON reader: %v", name, err)
					return
				}
			}
		}
		if msg != "" {
			return
		}
		// the package-level functions work on the active schema (schema.Set): the same verdicts, for every
		// choice of active schema, in any order of choices (the previous choice must not leak into the next)
		defer schema.Set(schema.BuiltinSchema())
		var nilSchema *schema.Schema
		none, _ := schema.Load("none")
		active := []struct {
			name    string
			s       *schema.Schema
			decides bool
		}{{"builtin", schema.BuiltinSchema(), true}, {"nil", nilSchema, false}, {"external copy", e.external, true}, {"none", none, false}, {"nil", nilSchema, false}}
		start := int(e.seq % 5)
		e.seq++
		for i := range active {
			cfg := active[(start+i)%len(active)]
			schema.Set(cfg.s)
			type result struct {
				name string
				err  error
			}
			rs := []result{{"ValidateData(json)", schema.ValidateData(jsonData)}, {"ValidateFile(.json)", schema.ValidateFile(jp)},
				{"ValidateReader(json)", schema.ValidateReader(bytes.NewReader(jsonData))}}
			_, rerr := schema.ReadAndValidate(bytes.NewReader(jsonData))
			rs = append(rs, result{"ReadAndValidate(json)", rerr})
			if yamlOK {
				rs = append(rs, result{"ValidateData(yaml)", schema.ValidateData(yamlData)}, result{"ValidateFile(.yaml)", schema.ValidateFile(yp)})
			}
			rs = append(rs, result{"Get().ValidateData(json)", schema.Get().ValidateData(jsonData)})
			// a schema object validates with itself, whatever the active schema is
			var raw specs.Spec
			dec := json.NewDecoder(bytes.NewReader(jsonData))
			dec.DisallowUnknownFields()
			if isObj && dec.Decode(&raw) == nil && gen.CanonTree(model.SpecTree(&raw)) == gen.CanonTree(doc) { // representable in memory: judged by the harness's own serialiser, not by the struct tags
				for _, own := range []struct {
					name    string
					s       *schema.Schema
					decides bool
				}{{"builtin", schema.BuiltinSchema(), true}, {"external copy", e.external, true}, {"none", none, false}, {"NOP", schema.NopSchema(), false}, {"nil", nilSchema, false}} {
					for _, r := range []result{{"Validate(spec)", own.s.Validate(&raw)}, {"ValidateType(spec)", own.s.ValidateType(&raw)}} {
						switch {
						case own.decides && !malformed && (r.err == nil) != want:
							msg = fmt.Sprintf("%s schema object, %s while the active schema is %s: %s, but draft-07 semantics of the shipped schema files say valid=%v", own.name, r.name, cfg.name, verdictStr(r.err), want)
							return
						case !own.decides && r.err != nil:
							msg = fmt.Sprintf("%s schema object, %s while the active schema is %s: rejected an in-memory Spec: %v", own.name, r.name, cfg.name, r.err)
							return
						}
					}
				}
			}
			for _, r := range rs {
				switch {
				case cfg.decides && !malformed && (r.err == nil) != want:
					msg = fmt.Sprintf("active schema %s (schema.Set), package-level %s: %s, but draft-07 semantics of the shipped schema files say valid=%v", cfg.name, r.name, verdictStr(r.err), want)
					return
				case !cfg.decides && isObj && r.err != nil:
					msg = fmt.Sprintf("active schema %s (schema.Set), package-level %s rejected a parseable document: %v", cfg.name, r.name, r.err)
					return
				}
			}
		}
		info["active-schema-switched"] = true
	})
	if perr != nil {
		return perr.Error(), info
	}
	return msg, info
}

func c17Labels(c c17Doc, info map[string]bool) (labels []string, nontrivial bool) {
	for k, v := range info {
		if v {
			labels = append(labels, k)
		}
	}
	if !info["model-valid"] {
		labels = append(labels, "model-invalid")
	}
	labels = append(labels, fmt.Sprintf("mutations-%d", len(c.Mutations)))
	big := false
	walkTree(c.Doc, nil, func(p treePath, v any) {
		if n, ok := v.(json.Number); ok && len(strings.TrimLeft(n.String(), "-")) >= 16 && !strings.Contains(n.String(), ".") {
			big = true
		}
	})
	if big {
		labels = append(labels, "integer-beyond-2^53")
	}
	outside := false
	walkTree(c.Doc, nil, func(p treePath, v any) {
		if n, ok := v.(json.Number); ok {
			if f, err := strconv.ParseFloat(n.String(), 64); err != nil || (f == 0 && strings.Trim(n.String(), "-0.eE+") != "") {
				outside = true
			}
		}
	})
	if outside {
		labels = append(labels, "number-outside-float64")
	}
	nontrivial = big || outside || (len(c.Mutations) == 1 && !info["model-valid"]) || (len(c.Mutations) == 0 && info["model-valid"])
	sort.Strings(labels)
	return labels, nontrivial
}

func TestC17Rapid(t *testing.T) {
	rec := stats.For("C17", "rapid")
	env := newC17Env(t)
	// sentinels against a builtin schema that silently validates nothing
	for _, d := range []string{`{}`, `{"cdiVersion":"1.0.0","kind":"v.com/c","devices":3}`} {
		if schema.BuiltinSchema().ValidateData([]byte(d)) == nil {
			t.Fatalf("C17 violated: the builtin schema accepts %s (it validates nothing?)", d)
		}
	}
	rapid.Check(t, func(t *rapid.T) {
		c := genC17(t)
		msg, info := env.check(t, c.Doc)
		if msg != "" {
			t.Fatalf("C17 violated: %s\nmutations: %v\ndocument: %s", msg, c.Mutations, clip(string(gen.EncodeJSON(c.Doc)), 3000))
		}
		labels, nontriv := c17Labels(c, info)
		rec.Case(nontriv, gen.CanonTree(c.Doc), func() any { return c }, labels...)
	})
}

func TestC17Regress(t *testing.T) {
	rec := stats.For("C17", "regress")
	env := newC17Env(t)
	for _, rc := range loadRegressions(t, "C17") {
		var c struct {
			Doc json.RawMessage `json:"doc"`
		}
		if err := json.Unmarshal(rc.Case, &c); err != nil {
			t.Fatalf("bad C17 regression: %v", err)
		}
		doc := gen.ParseJSONTree(c.Doc)
		msg, _ := env.check(t, doc)
		if msg != "" {
			p := saveReplay("C17", "doc", map[string]any{"doc": doc})
			t.Fatalf("C17 violated on regression [%s]: %s\nreplay: %s", rc.Note, msg, p)
		}
		rec.Case(true, gen.CanonTree(doc), func() any { return map[string]any{"doc": doc} }, "regression")
	}
}

// TestC17ModelCrossCheck: the reference model itself is judged by an
// independent implementation (python jsonschema, Draft7Validator) on generated
// documents. A disagreement is an oracle dispute: the run is undecided, never a
// violation.
func TestC17ModelCrossCheck(t *testing.T) {
	rec := stats.For("C17", "model-crosscheck")
	py, err := exec.LookPath("python3-vt")
	script := filepath.Join(os.Getenv("VERIF_VERIF_DIR"), "tools", "c17_jsonschema.py")
	if err != nil || os.Getenv("VERIF_VERIF_DIR") == "" {
		rec.Label("env:python-jsonschema-unavailable-skipped")
		t.Skip("VERIF-ENV-SKIP python3-vt not available")
	}
	dump := filepath.Join(t.TempDir(), "dump.jsonl")
	f, err := os.Create(dump)
	if err != nil {
		t.Fatal(err)
	}
	n := 0
	rapid.Check(t, func(t *rapid.T) {
		c := genC17(t)
		valid, merr := draft07(t).Validate(c.Doc)
		if merr != nil {
			t.Fatalf("VERIF-UNDECIDED model: %v", merr)
		}
		b, _ := json.Marshal(map[string]any{"doc": c.Doc, "valid": valid})
		_, _ = f.Write(append(b, '\n'))
		n++
		rec.Case(len(c.Mutations) > 0, gen.CanonTree(c.Doc), nil, "cross-checked")
	})
	_ = f.Close()
	out, err := exec.Command(py, script, filepath.Join(repoDir(), "schema"), dump).Output()
	if err != nil {
		rec.Label("env:python-jsonschema-unavailable-skipped")
		t.Skipf("VERIF-ENV-SKIP python jsonschema could not run: %v", err)
	}
	var res struct {
		N             int               `json:"n"`
		Count         int               `json:"count"`
		Disagreements []json.RawMessage `json:"disagreements"`
	}
	if err := json.Unmarshal(bytes.TrimSpace(out), &res); err != nil {
		t.Fatalf("VERIF-UNDECIDED cannot parse the cross-check result: %v: %s", err, out)
	}
	rec.Add("documents-judged-by-python-jsonschema", int64(res.N))
	if res.Count > 0 {
		t.Fatalf("VERIF-UNDECIDED oracle dispute: the Go draft-07 model and python jsonschema disagree on %d of %d documents, e.g. %s", res.Count, res.N, res.Disagreements[0])
	}
}

// TestC17Large: documents of 0.5 .. 2.5 MiB (many devices or one huge string),
// valid and invalid only near the end, through every entry point.
func TestC17Large(t *testing.T) {
	rec := stats.For("C17", "large")
	env := newC17Env(t)
	idx, n := shard()
	count := 0
	sizes := []int{512 << 10, (1 << 20) - 4096, (1 << 20) + 4096}
	if tier() == "thorough" {
		sizes = append(sizes, 5<<19, 6<<20)
	}
	for _, size := range sizes {
		for _, shape := range []string{"many-devices", "long-string"} {
			for _, tail := range []string{"valid", "invalid-last-device", "invalid-root-member-at-end"} {
				count++
				if count%n != idx {
					continue
				}
				doc := map[string]any{"cdiVersion": "1.0.0", "kind": "vendor.com/class"}
				var devs []any
				if shape == "many-devices" {
					for i := 0; len(devs)*130 < size; i++ {
						devs = append(devs, map[string]any{"name": fmt.Sprintf("dev%07d", i), "containerEdits": map[string]any{
							"env": []any{fmt.Sprintf("DEVICE_NUMBER_%07d=some-not-so-short-value-%07d", i, i)}, "additionalGids": []any{json.Number("7")}}})
					}
				} else {
					devs = append(devs, map[string]any{"name": "dev", "containerEdits": map[string]any{"env": []any{"BIG=" + strings.Repeat("x", size)}}})
					devs = append(devs, map[string]any{"name": "dev2", "containerEdits": map[string]any{"env": []any{"A=b"}}})
				}
				switch tail {
				case "invalid-last-device":
					devs[len(devs)-1].(map[string]any)["containerEdits"].(map[string]any)["additionalGids"] = []any{json.Number("4294967296")}
				case "invalid-root-member-at-end":
					doc["zz-devices-again"] = "x"  // harmless extra member ...
					doc["kind"] = json.Number("3") // ... and a wrong type; "kind" sorts before the large "devices"? no: the verdict must not depend on position
				}
				doc["devices"] = devs
				msg, info := env.check(t, doc)
				if msg != "" {
					t.Fatalf("C17 violated on a %s document of about %d bytes (%s): %s", shape, size, tail, msg)
				}
				labels := []string{"large:" + shape, "tail:" + tail, fmt.Sprintf("size>=%dKiB", size>>10)}
				if info["model-valid"] {
					labels = append(labels, "model-valid")
				} else {
					labels = append(labels, "model-invalid")
				}
				rec.Case(true, fmt.Sprintf("%s/%s/%d", shape, tail, size), func() any { return map[string]any{"shape": shape, "tail": tail, "bytes": size} }, labels...)
			}
		}
	}
}
