package props

import (
	"encoding/json"
	"fmt"
	"os"
	"path/filepath"
	"strings"
	"testing"

	"pgregory.net/rapid"
	"tags.cncf.io/container-device-interface/pkg/cdi"
	"tags.cncf.io/container-device-interface/schema"
	specs "tags.cncf.io/container-device-interface/specs-go"
	"tags.cncf.io/container-device-interface/verifharness/gen"
	"tags.cncf.io/container-device-interface/verifharness/stats"
)

type c18Env struct {
	base string
	seq  int
}

// check runs the C18 oracle on one library-valid Spec. generatorBug is set
// when the library itself (no validator installed) refuses the Spec.
func (env *c18Env) check(s *specs.Spec) (msg string, generatorBug bool) {
	env.seq++
	dir := filepath.Join(env.base, fmt.Sprintf("c%d", env.seq%64))
	_ = os.RemoveAll(dir)
	defer os.RemoveAll(dir)
	defer cdi.SetSpecValidator(nil)
	perr := catch(func() {
		// precondition: without a validator the library accepts the Spec
		cdi.SetSpecValidator(nil)
		plain, _ := cdi.NewCache(cdi.WithSpecDirs(filepath.Join(dir, "plain")), cdi.WithAutoRefresh(false))
		for _, n := range []string{"p.json", "p.yaml"} {
			if err := plain.WriteSpec(s, n); err != nil {
				msg, generatorBug = fmt.Sprintf("the library refuses the generated Spec without any validator: %v", err), true
				return
			}
			if _, err := cdi.ReadSpec(filepath.Join(dir, "plain", n), 0); err != nil {
				// the library accepted the Spec for writing, so it is library-valid; the file it wrote is refused
				// even by the reader without any validator, let alone the schema-checking one
				msg = fmt.Sprintf("WriteSpec accepted the Spec, but the %s it wrote is refused by the reader (no validator installed): %v", n, err)
				return
			}
		}
		// the in-memory object passes the builtin schema
		if err := schema.BuiltinSchema().Validate(s); err != nil {
			msg = fmt.Sprintf("library-valid Spec fails the builtin schema as an in-memory object: %v", err)
			return
		}
		// with the builtin schema installed as Spec validator nothing changes
		cdi.SetSpecValidator(schema.BuiltinSchema())
		cache, _ := cdi.NewCache(cdi.WithSpecDirs(filepath.Join(dir, "checked")), cdi.WithAutoRefresh(false))
		for _, n := range []string{"c.json", "c.yaml"} {
			p := filepath.Join(dir, "checked", n)
			if err := cache.WriteSpec(s, n); err != nil {
				msg = fmt.Sprintf("with the builtin schema installed, WriteSpec(%s) of a library-valid Spec fails: %v", n, err)
				return
			}
			rs, err := cdi.ReadSpec(p, 0)
			if err != nil {
				data, _ := os.ReadFile(p)
				msg = fmt.Sprintf("with the builtin schema installed, the written %s is refused by the reader: %v\nfile: %s", n, err, clip(string(data), 1200))
				return
			}
			// (bytes that are not valid UTF-8 are written as U+FFFD: compare with the Spec as any file can hold it)
			want := specImage(s)
			var asWritten specs.Spec
			if json.Unmarshal([]byte(want), &asWritten) == nil {
				want = specImage(&asWritten)
			}
			if specImage(rs.Spec) != want {
				msg = fmt.Sprintf("%s reads back different: %s", n, firstDiff(want, specImage(rs.Spec)))
				return
			}
			if err := schema.BuiltinSchema().ValidateFile(p); err != nil {
				data, _ := os.ReadFile(p)
				msg = fmt.Sprintf("the written %s fails ValidateFile with the builtin schema: %v\nfile: %s", n, err, clip(string(data), 1200))
				return
			}
			data, _ := os.ReadFile(p)
			if err := schema.BuiltinSchema().ValidateData(data); err != nil {
				msg = fmt.Sprintf("the content of the written %s fails ValidateData: %v", n, err)
				return
			}
		}
		// loading through a cache with the validator installed keeps every device
		if err := cache.Refresh(); err == nil {
			// two files define the same devices: a conflict is expected, but no load failure
		}
		for p, errs := range cache.GetErrors() {
			for _, e := range errs {
				if !strings.Contains(e.Error(), "conflicting device") {
					msg = fmt.Sprintf("with the builtin schema installed the cache reports %s in error: %v", p, e)
					return
				}
			}
		}
	})
	if perr != nil {
		return perr.Error(), false
	}
	return msg, generatorBug
}

func c18Labels(s *specs.Spec) (labels []string, nontrivial bool) {
	labels, hostile := stringClasses(s)
	img := specImage(s)
	nontrivial = hostile
	if strings.HasPrefix(s.Version, "v") {
		labels = append(labels, "version-with-leading-v")
		nontrivial = true
	}
	if len(s.Annotations) > 0 {
		labels = append(labels, "spec-annotations")
		nontrivial = true
	}
	for _, d := range s.Devices {
		if len(d.Annotations) > 0 {
			labels = append(labels, "device-annotations")
			nontrivial = true
			break
		}
	}
	for _, ext := range []string{"9223372036854775807", "-9223372036854775808", "4294967295", "2147483648", "9007199254740993"} {
		if strings.Contains(img, ext) {
			labels = append(labels, "int:"+ext)
			nontrivial = true
		}
	}
	for _, m := range []string{"\"hooks\"", "\"mounts\"", "\"deviceNodes\"", "\"intelRdt\"", "\"additionalGids\"", "\"timeout\"", "\"fileMode\"", "\"uid\"", "\"hostPath\""} {
		if strings.Contains(img, m) {
			labels = append(labels, "has:"+strings.Trim(m, "\""))
		}
	}
	return labels, nontrivial
}

func TestC18Rapid(t *testing.T) {
	rec := stats.For("C18", "rapid")
	env := &c18Env{base: t.TempDir()}
	rapid.Check(t, func(t *rapid.T) {
		hostile := rapid.IntRange(0, 3).Draw(t, "hostileStrings") != 0
		s := gen.Spec(t, "s", gen.SpecOpts{Edit: gen.EditOpts{Hostile: hostile}, MaxDevices: 3})
		if rapid.IntRange(0, 7).Draw(t, "vPrefixedVersion") == 0 {
			s.Version = "v" + s.Version // the library accepts a leading "v" on the declared version
		}
		msg, genBug := env.check(s)
		if genBug {
			t.Fatalf("VERIF-UNDECIDED generator precondition failed: %s\nSpec: %s", msg, clip(specImage(s), 2000))
		}
		if msg != "" {
			t.Fatalf("C18 violated: %s\nSpec: %s", msg, clip(specImage(s), 3000))
		}
		labels, nontriv := c18Labels(s)
		rec.Case(nontriv, specImage(s), func() any { return json.RawMessage(specImage(s)) }, labels...)
	})
}

func TestC18Regress(t *testing.T) {
	rec := stats.For("C18", "regress")
	env := &c18Env{base: t.TempDir()}
	for _, rc := range loadRegressions(t, "C18") {
		var s specs.Spec
		if rc.Kind == "big-annotation" {
			var b c18Big
			if err := json.Unmarshal(rc.Case, &b); err != nil {
				t.Fatalf("bad C18 regression: %v", err)
			}
			s = *b.spec()
		} else if err := json.Unmarshal(rc.Case, &s); err != nil {
			t.Fatalf("bad C18 regression: %v", err)
		}
		msg, genBug := env.check(&s)
		if genBug && rc.Kind == "big-annotation" {
			// the library refuses it for writing: nothing is claimed about it
			rec.Case(true, string(rc.Case), func() any { return rc.Case }, "regression", "refused-by-the-library")
			continue
		}
		if genBug {
			t.Fatalf("C18 regression [%s] is not library-valid: %s", rc.Note, msg)
		}
		if msg != "" {
			p := saveReplay("C18", rc.Kind, rc.Case)
			t.Fatalf("C18 violated on regression [%s]: %s\nreplay: %s", rc.Note, clip(msg, 800), p)
		}
		rec.Case(true, string(rc.Case), func() any { return rc.Case }, "regression")
	}
}

// big annotation values: the unit repeated, and how many bytes one unit takes in the written file
// (bytes that are not valid UTF-8 are written as U+FFFD, three bytes each).
var c18Fills = []struct {
	name    string
	unit    string
	written int
}{{"ascii", "a", 1}, {"invalid-utf8-byte", "\xff", 3}, {"two-byte-rune", "\u00e9", 2}, {"truncated-rune", "\xe2\x82", 6}, {"nul", "\x00", 1}}

const c18BigKey = "vendor.com/blob"

type c18Big struct {
	Fill  string `json:"fill"`
	Units int    `json:"units"`
	Where string `json:"where"` // spec or device
}

func (b c18Big) spec() *specs.Spec {
	unit := "a"
	for _, f := range c18Fills {
		if f.name == b.Fill {
			unit = f.unit
		}
	}
	val := strings.Repeat(unit, b.Units)
	s := &specs.Spec{Version: "0.6.0", Kind: "vendor.com/class", Devices: []specs.Device{{Name: "d0", ContainerEdits: specs.ContainerEdits{Env: []string{"A=1"}}}}}
	if b.Where == "spec" {
		s.Annotations = map[string]string{c18BigKey: val}
	} else {
		s.Devices[0].Annotations = map[string]string{c18BigKey: val}
	}
	return s
}

// TestC18BigAnnotations: annotation sets around the total-size limit of
// 256 KiB, with values whose written form is longer than the value itself.
// Whatever the library accepts for writing must still satisfy every clause.
func TestC18BigAnnotations(t *testing.T) {
	rec := stats.For("C18", "big-annotations")
	env := &c18Env{base: t.TempDir()}
	const limit = 256 * 1024
	for _, f := range c18Fills {
		for _, where := range []string{"spec", "device"} {
			// unit counts that put the value just below / at / above the limit, as given and as written
			var counts []int
			for _, per := range []int{len(f.unit), f.written} {
				n := (limit - len(c18BigKey)) / per
				counts = append(counts, n-1, n, n+1, n+2)
			}
			counts = append(counts, 1000)
			for _, n := range counts {
				c := c18Big{Fill: f.name, Units: n, Where: where}
				msg, refused := env.check(c.spec())
				if refused {
					rec.Case(true, canonJSON(c), func() any { return c }, "big-annotations", "refused-by-the-library", "fill:"+f.name)
					continue
				}
				if msg != "" {
					p := saveReplay("C18", "big-annotation", c)
					t.Fatalf("C18 violated: %s\ncase: annotation %s = %d x %q at %s level (%d bytes as given, %d bytes as written)\nreplay: %s", clip(msg, 600), c18BigKey, n, f.unit, where, n*len(f.unit), n*f.written, p)
				}
				rec.Case(true, canonJSON(c), func() any { return c }, "big-annotations", "accepted-by-the-library", "fill:"+f.name)
			}
		}
	}
}
