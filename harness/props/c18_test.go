package props

import (
	"encoding/json"
	"fmt"
	"os"
	"path/filepath"
	"strings"
	"testing"

	"pgregory.net/rapid"
	"tags.cncf.io/container-device-interface/pkg/cdi"
	"tags.cncf.io/container-device-interface/schema"
	specs "tags.cncf.io/container-device-interface/specs-go"
	"tags.cncf.io/container-device-interface/verifharness/gen"
	"tags.cncf.io/container-device-interface/verifharness/stats"
)

type c18Env struct {
	base string
	seq  int
}

// check runs the C18 oracle on one library-valid Spec. generatorBug is set
// when the library itself (no validator installed) refuses the Spec.
func (env *c18Env) check(s *specs.Spec) (msg string, generatorBug bool) {
	env.seq++
	dir := filepath.Join(env.base, fmt.Sprintf("c%d", env.seq%64))
	_ = os.RemoveAll(dir)
	defer os.RemoveAll(dir)
	defer cdi.SetSpecValidator(nil)
	perr := catch(func() {
		// precondition: without a validator the library accepts the Spec
		cdi.SetSpecValidator(nil)
		plain, _ := cdi.NewCache(cdi.WithSpecDirs(filepath.Join(dir, "plain")), cdi.WithAutoRefresh(false))
		for _, n := range []string{"p.json", "p.yaml"} {
			if err := plain.WriteSpec(s, n); err != nil {
				msg, generatorBug = fmt.Sprintf("the library refuses the generated Spec without any validator: %v", err), true
				return
			}
			if _, err := cdi.ReadSpec(filepath.Join(dir, "plain", n), 0); err != nil {
				msg, generatorBug = fmt.Sprintf("the library cannot read back %s without any validator: %v", n, err), true
				return
			}
		}
		// the in-memory object passes the builtin schema
		if err := schema.BuiltinSchema().Validate(s); err != nil {
			msg = fmt.Sprintf("library-valid Spec fails the builtin schema as an in-memory object: %v", err)
			return
		}
		// with the builtin schema installed as Spec validator nothing changes
		cdi.SetSpecValidator(schema.BuiltinSchema())
		cache, _ := cdi.NewCache(cdi.WithSpecDirs(filepath.Join(dir, "checked")), cdi.WithAutoRefresh(false))
		for _, n := range []string{"c.json", "c.yaml"} {
			p := filepath.Join(dir, "checked", n)
			if err := cache.WriteSpec(s, n); err != nil {
				msg = fmt.Sprintf("with the builtin schema installed, WriteSpec(%s) of a library-valid Spec fails: %v", n, err)
				return
			}
			rs, err := cdi.ReadSpec(p, 0)
			if err != nil {
				data, _ := os.ReadFile(p)
				msg = fmt.Sprintf("with the builtin schema installed, the written %s is refused by the reader: %v\nfile: %s", n, err, clip(string(data), 1200))
				return
			}
			if specImage(rs.Spec) != specImage(s) {
				msg = fmt.Sprintf("%s reads back different: %s", n, firstDiff(specImage(s), specImage(rs.Spec)))
				return
			}
			if err := schema.BuiltinSchema().ValidateFile(p); err != nil {
				data, _ := os.ReadFile(p)
				msg = fmt.Sprintf("the written %s fails ValidateFile with the builtin schema: %v\nfile: %s", n, err, clip(string(data), 1200))
				return
			}
			data, _ := os.ReadFile(p)
			if err := schema.BuiltinSchema().ValidateData(data); err != nil {
				msg = fmt.Sprintf("the content of the written %s fails ValidateData: %v", n, err)
				return
			}
		}
		// loading through a cache with the validator installed keeps every device
		if err := cache.Refresh(); err == nil {
			// two files define the same devices: a conflict is expected, but no load failure
		}
		for p, errs := range cache.GetErrors() {
			for _, e := range errs {
				if !strings.Contains(e.Error(), "conflicting device") {
					msg = fmt.Sprintf("with the builtin schema installed the cache reports %s in error: %v", p, e)
					return
				}
			}
		}
	})
	if perr != nil {
		return perr.Error(), false
	}
	return msg, generatorBug
}

func c18Labels(s *specs.Spec) (labels []string, nontrivial bool) {
	labels, hostile := stringClasses(s)
	img := specImage(s)
	nontrivial = hostile
	if len(s.Annotations) > 0 {
		labels = append(labels, "spec-annotations")
		nontrivial = true
	}
	for _, d := range s.Devices {
		if len(d.Annotations) > 0 {
			labels = append(labels, "device-annotations")
			nontrivial = true
			break
		}
	}
	for _, ext := range []string{"9223372036854775807", "-9223372036854775808", "4294967295", "2147483648", "9007199254740993"} {
		if strings.Contains(img, ext) {
			labels = append(labels, "int:"+ext)
			nontrivial = true
		}
	}
	for _, m := range []string{"\"hooks\"", "\"mounts\"", "\"deviceNodes\"", "\"intelRdt\"", "\"additionalGids\"", "\"timeout\"", "\"fileMode\"", "\"uid\"", "\"hostPath\""} {
		if strings.Contains(img, m) {
			labels = append(labels, "has:"+strings.Trim(m, "\""))
		}
	}
	return labels, nontrivial
}

func TestC18Rapid(t *testing.T) {
	rec := stats.For("C18", "rapid")
	env := &c18Env{base: t.TempDir()}
	rapid.Check(t, func(t *rapid.T) {
		hostile := rapid.IntRange(0, 3).Draw(t, "hostileStrings") != 0
		s := gen.Spec(t, "s", gen.SpecOpts{Edit: gen.EditOpts{Hostile: hostile}, MaxDevices: 3})
		msg, genBug := env.check(s)
		if genBug {
			t.Fatalf("VERIF-UNDECIDED generator precondition failed: %s\nSpec: %s", msg, clip(specImage(s), 2000))
		}
		if msg != "" {
			t.Fatalf("C18 violated: %s\nSpec: %s", msg, clip(specImage(s), 3000))
		}
		labels, nontriv := c18Labels(s)
		rec.Case(nontriv, specImage(s), func() any { return json.RawMessage(specImage(s)) }, labels...)
	})
}

func TestC18Regress(t *testing.T) {
	rec := stats.For("C18", "regress")
	env := &c18Env{base: t.TempDir()}
	for _, rc := range loadRegressions(t, "C18") {
		var s specs.Spec
		if err := json.Unmarshal(rc.Case, &s); err != nil {
			t.Fatalf("bad C18 regression: %v", err)
		}
		msg, genBug := env.check(&s)
		if genBug {
			t.Fatalf("C18 regression [%s] is not library-valid: %s", rc.Note, msg)
		}
		if msg != "" {
			p := saveReplay("C18", "spec", json.RawMessage(specImage(&s)))
			t.Fatalf("C18 violated on regression [%s]: %s\nreplay: %s", rc.Note, msg, p)
		}
		rec.Case(true, specImage(&s), func() any { return json.RawMessage(specImage(&s)) }, "regression")
	}
}
