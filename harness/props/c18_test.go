package props

import (
	"encoding/json"
	"fmt"
	"os"
	"path/filepath"
	"strings"
	"sync"
	"testing"

	"pgregory.net/rapid"
	"tags.cncf.io/container-device-interface/pkg/cdi"
	"tags.cncf.io/container-device-interface/schema"
	specs "tags.cncf.io/container-device-interface/specs-go"
	"tags.cncf.io/container-device-interface/verifharness/gen"
	"tags.cncf.io/container-device-interface/verifharness/stats"
)

type c18Env struct {
	base string
	seq  int
}

// check runs the C18 oracle on one library-valid Spec. generatorBug is set
// when the library itself (no validator installed) refuses the Spec.
func (env *c18Env) check(s *specs.Spec) (msg string, generatorBug bool) {
	env.seq++
	dir := filepath.Join(env.base, fmt.Sprintf("c%d", env.seq%64))
	_ = os.RemoveAll(dir)
	defer os.RemoveAll(dir)
	defer cdi.SetSpecValidator(nil)
	perr := catch(func() {
		// precondition: without a validator the library accepts the Spec
		cdi.SetSpecValidator(nil)
		plain, _ := cdi.NewCache(cdi.WithSpecDirs(filepath.Join(dir, "plain")), cdi.WithAutoRefresh(false))
		for _, n := range []string{"p.json", "p.yaml"} {
			if err := plain.WriteSpec(s, n); err != nil {
				msg, generatorBug = fmt.Sprintf("the library refuses the generated Spec without any validator: %v", err), true
				return
			}
			if _, err := cdi.ReadSpec(filepath.Join(dir, "plain", n), 0); err != nil {
				// the library accepted the Spec for writing, so it is library-valid; the file it wrote is refused
				// even by the reader without any validator, let alone the schema-checking one
				msg = fmt.Sprintf("WriteSpec accepted the Spec, but the %s it wrote is refused by the reader (no validator installed): %v", n, err)
				return
			}
		}
		// every other case: the schema has seen this very object before, in a state it refuses (corrected in place since)
		if env.seq%2 == 0 {
			saved := s.Devices
			s.Devices = nil // written as "devices": null, which the schema (type array) refuses
			_ = schema.BuiltinSchema().Validate(s)
			s.Devices = saved
		}
		// the in-memory object passes the builtin schema
		if err := schema.BuiltinSchema().Validate(s); err != nil {
			msg = fmt.Sprintf("library-valid Spec fails the builtin schema as an in-memory object: %v", err)
			return
		}
		// with the builtin schema installed as Spec validator nothing changes
		cdi.SetSpecValidator(schema.BuiltinSchema())
		cache, _ := cdi.NewCache(cdi.WithSpecDirs(filepath.Join(dir, "checked")), cdi.WithAutoRefresh(false))
		for _, n := range []string{"c.json", "c.yaml"} {
			p := filepath.Join(dir, "checked", n)
			if err := cache.WriteSpec(s, n); err != nil {
				msg = fmt.Sprintf("with the builtin schema installed, WriteSpec(%s) of a library-valid Spec fails: %v", n, err)
				return
			}
			rs, err := cdi.ReadSpec(p, 0)
			if err != nil {
				data, _ := os.ReadFile(p)
				msg = fmt.Sprintf("with the builtin schema installed, the written %s is refused by the reader: %v\nfile: %s", n, err, clip(string(data), 1200))
				return
			}
			// (bytes that are not valid UTF-8 are written as U+FFFD: compare with the Spec as any file can hold it)
			want := specImage(s)
			var asWritten specs.Spec
			if json.Unmarshal([]byte(want), &asWritten) == nil {
				want = specImage(&asWritten)
			}
			if specImage(rs.Spec) != want {
				msg = fmt.Sprintf("%s reads back different: %s", n, firstDiff(want, specImage(rs.Spec)))
				return
			}
			if err := schema.BuiltinSchema().ValidateFile(p); err != nil {
				data, _ := os.ReadFile(p)
				msg = fmt.Sprintf("the written %s fails ValidateFile with the builtin schema: %v\nfile: %s", n, err, clip(string(data), 1200))
				return
			}
			data, _ := os.ReadFile(p)
			if err := schema.BuiltinSchema().ValidateData(data); err != nil {
				msg = fmt.Sprintf("the content of the written %s fails ValidateData: %v", n, err)
				return
			}
		}
		// loading through a cache with the validator installed keeps every device
		if err := cache.Refresh(); err == nil {
			// two files define the same devices: a conflict is expected, but no load failure
		}
		for p, errs := range cache.GetErrors() {
			for _, e := range errs {
				if !strings.Contains(e.Error(), "conflicting device") {
					msg = fmt.Sprintf("with the builtin schema installed the cache reports %s in error: %v", p, e)
					return
				}
			}
		}
	})
	if perr != nil {
		return perr.Error(), false
	}
	return msg, generatorBug
}

func c18Labels(s *specs.Spec) (labels []string, nontrivial bool) {
	labels, hostile := stringClasses(s)
	img := specImage(s)
	nontrivial = hostile
	if strings.HasPrefix(s.Version, "v") {
		labels = append(labels, "version-with-leading-v")
		nontrivial = true
	}
	if len(s.Annotations) > 0 {
		labels = append(labels, "spec-annotations")
		nontrivial = true
	}
	for _, d := range s.Devices {
		if len(d.Annotations) > 0 {
			labels = append(labels, "device-annotations")
			nontrivial = true
			break
		}
	}
	for _, ext := range []string{"9223372036854775807", "-9223372036854775808", "4294967295", "2147483648", "9007199254740993"} {
		if strings.Contains(img, ext) {
			labels = append(labels, "int:"+ext)
			nontrivial = true
		}
	}
	for _, m := range []string{"\"hooks\"", "\"mounts\"", "\"deviceNodes\"", "\"intelRdt\"", "\"additionalGids\"", "\"timeout\"", "\"fileMode\"", "\"uid\"", "\"hostPath\""} {
		if strings.Contains(img, m) {
			labels = append(labels, "has:"+strings.Trim(m, "\""))
		}
	}
	return labels, nontrivial
}

func TestC18Rapid(t *testing.T) {
	rec := stats.For("C18", "rapid")
	env := &c18Env{base: t.TempDir()}
	rapid.Check(t, func(t *rapid.T) {
		hostile := rapid.IntRange(0, 3).Draw(t, "hostileStrings") != 0
		s := gen.Spec(t, "s", gen.SpecOpts{Edit: gen.EditOpts{Hostile: hostile}, MaxDevices: 3})
		if rapid.IntRange(0, 7).Draw(t, "vPrefixedVersion") == 0 {
			s.Version = "v" + s.Version // the library accepts a leading "v" on the declared version
		}
		msg, genBug := env.check(s)
		if genBug {
			t.Fatalf("VERIF-UNDECIDED generator precondition failed: %s\nSpec: %s", msg, clip(specImage(s), 2000))
		}
		if msg != "" {
			t.Fatalf("C18 violated: %s\nSpec: %s", msg, clip(specImage(s), 3000))
		}
		labels, nontriv := c18Labels(s)
		rec.Case(nontriv, specImage(s), func() any { return json.RawMessage(specImage(s)) }, labels...)
	})
}

func TestC18Regress(t *testing.T) {
	rec := stats.For("C18", "regress")
	env := &c18Env{base: t.TempDir()}
	for _, rc := range loadRegressions(t, "C18") {
		var s specs.Spec
		if rc.Kind == "big-annotation" {
			var b c18Big
			if err := json.Unmarshal(rc.Case, &b); err != nil {
				t.Fatalf("bad C18 regression: %v", err)
			}
			s = *b.spec()
		} else if err := json.Unmarshal(rc.Case, &s); err != nil {
			t.Fatalf("bad C18 regression: %v", err)
		}
		msg, genBug := env.check(&s)
		if genBug && rc.Kind == "big-annotation" {
			// the library refuses it for writing: nothing is claimed about it
			rec.Case(true, string(rc.Case), func() any { return rc.Case }, "regression", "refused-by-the-library")
			continue
		}
		if genBug {
			t.Fatalf("C18 regression [%s] is not library-valid: %s", rc.Note, msg)
		}
		if msg != "" {
			p := saveReplay("C18", rc.Kind, rc.Case)
			t.Fatalf("C18 violated on regression [%s]: %s\nreplay: %s", rc.Note, clip(msg, 800), p)
		}
		rec.Case(true, string(rc.Case), func() any { return rc.Case }, "regression")
	}
}

// big annotation values: the unit repeated, and how many bytes one unit takes in the written file
// (bytes that are not valid UTF-8 are written as U+FFFD, three bytes each).
var c18Fills = []struct {
	name    string
	unit    string
	written int
}{{"ascii", "a", 1}, {"invalid-utf8-byte", "\xff", 3}, {"two-byte-rune", "\u00e9", 2}, {"truncated-rune", "\xe2\x82", 6}, {"nul", "\x00", 1}}

const c18BigKey = "vendor.com/blob"

type c18Big struct {
	Fill  string `json:"fill"`
	Units int    `json:"units"`
	Where string `json:"where"` // spec or device
}

func (b c18Big) spec() *specs.Spec {
	unit := "a"
	for _, f := range c18Fills {
		if f.name == b.Fill {
			unit = f.unit
		}
	}
	val := strings.Repeat(unit, b.Units)
	s := &specs.Spec{Version: "0.6.0", Kind: "vendor.com/class", Devices: []specs.Device{{Name: "d0", ContainerEdits: specs.ContainerEdits{Env: []string{"A=1"}}}}}
	if b.Where == "each-in-its-own-set" {
		// three annotation sets (Spec, two devices), each within the limit on its own, under different keys
		s.Annotations = map[string]string{"vendor.com/blob-s": val}
		s.Devices[0].Annotations = map[string]string{"vendor.com/blob-a": val}
		s.Devices = append(s.Devices, specs.Device{Name: "d1", Annotations: map[string]string{"vendor.com/blob-b": val}, ContainerEdits: specs.ContainerEdits{Env: []string{"B=1"}}})
	} else if b.Where == "spec" {
		s.Annotations = map[string]string{c18BigKey: val}
	} else {
		s.Devices[0].Annotations = map[string]string{c18BigKey: val}
	}
	return s
}

// TestC18BigAnnotations: annotation sets around the total-size limit of
// 256 KiB, with values whose written form is longer than the value itself.
// Whatever the library accepts for writing must still satisfy every clause.
func TestC18BigAnnotations(t *testing.T) {
	rec := stats.For("C18", "big-annotations")
	env := &c18Env{base: t.TempDir()}
	const limit = 256 * 1024
	for _, f := range c18Fills {
		for _, where := range []string{"spec", "device", "each-in-its-own-set"} {
			// unit counts that put the value just below / at / above the limit, as given and as written
			var counts []int
			for _, per := range []int{len(f.unit), f.written} {
				n := (limit - len(c18BigKey)) / per
				counts = append(counts, n-1, n, n+1, n+2)
			}
			counts = append(counts, 1000)
			if where == "each-in-its-own-set" {
				counts = []int{150 * 1024 / f.written, 100 * 1024 / f.written}
			}
			for _, n := range counts {
				c := c18Big{Fill: f.name, Units: n, Where: where}
				msg, refused := env.check(c.spec())
				if refused {
					rec.Case(true, canonJSON(c), func() any { return c }, "big-annotations", "refused-by-the-library", "fill:"+f.name)
					continue
				}
				if msg != "" {
					p := saveReplay("C18", "big-annotation", c)
					t.Fatalf("C18 violated: %s\ncase: annotation %s = %d x %q at %s level (%d bytes as given, %d bytes as written)\nreplay: %s", clip(msg, 600), c18BigKey, n, f.unit, where, n*len(f.unit), n*f.written, p)
				}
				rec.Case(true, canonJSON(c), func() any { return c }, "big-annotations", "accepted-by-the-library", "fill:"+f.name)
			}
		}
	}
}

// TestC18Concurrent: the builtin schema is one object for the whole process
// and the library calls the installed validator from several goroutines at
// once (watcher-driven refresh next to ReadSpec / WriteSpec / Refresh of the
// user). Library-valid Specs must pass it then as they do alone. Race build.
func TestC18Concurrent(t *testing.T) {
	rec := stats.For("C18", "concurrent")
	base := t.TempDir()
	defer cdi.SetSpecValidator(nil)
	caseSeq := 0
	rapid.Check(t, func(t *rapid.T) {
		caseSeq++
		n := rapid.IntRange(2, 6).Draw(t, "goroutines")
		rounds := rapid.IntRange(5, 30).Draw(t, "rounds")
		var all []*specs.Spec
		for i := 0; i < n; i++ {
			all = append(all, gen.Spec(t, fmt.Sprintf("g%d", i), gen.SpecOpts{Edit: gen.EditOpts{Hostile: rapid.Bool().Draw(t, fmt.Sprintf("hostile%d", i)), MaxPer: 2}, MaxDevices: 3}))
		}
		// each of them alone first (no validator, then with it): only Specs that pass alone take part
		cdi.SetSpecValidator(nil)
		var files []string
		for i, s := range all {
			dir := filepath.Join(base, fmt.Sprintf("c%d-g%d", caseSeq, i))
			c, _ := cdi.NewCache(cdi.WithSpecDirs(dir), cdi.WithAutoRefresh(false))
			if err := c.WriteSpec(s, "s.json"); err != nil {
				t.Fatalf("VERIF-UNDECIDED generator precondition failed: %v", err)
			}
			files = append(files, filepath.Join(dir, "s.json"))
			if err := schema.BuiltinSchema().Validate(s); err != nil {
				t.Fatalf("C18 violated: library-valid Spec fails the builtin schema as an in-memory object: %v\nSpec: %s", err, clip(specImage(s), 2000))
			}
		}
		cdi.SetSpecValidator(schema.BuiltinSchema())
		msgs := make([]string, n)
		var wg sync.WaitGroup
		for i := 0; i < n; i++ {
			wg.Add(1)
			go func(i int) {
				defer wg.Done()
				for r := 0; r < rounds && msgs[i] == ""; r++ {
					if err := schema.BuiltinSchema().Validate(all[i]); err != nil {
						msgs[i] = fmt.Sprintf("Validate(spec) of a Spec that passes when validated alone: %v", err)
						return
					}
					if _, err := cdi.ReadSpec(files[i], 0); err != nil {
						msgs[i] = fmt.Sprintf("ReadSpec, with the builtin schema installed, of a file that loads when read alone: %v", err)
						return
					}
					if err := schema.BuiltinSchema().ValidateFile(files[i]); err != nil {
						msgs[i] = fmt.Sprintf("ValidateFile of a file that passes alone: %v", err)
					}
				}
			}(i)
		}
		wg.Wait()
		cdi.SetSpecValidator(nil)
		for i, m := range msgs {
			if m != "" {
				t.Fatalf("C18 violated with %d goroutines validating at the same time (goroutine %d): %s\nSpec: %s", n, i, m, clip(specImage(all[i]), 2000))
			}
		}
		_ = os.RemoveAll(base)
		_ = os.MkdirAll(base, 0o755)
		rec.Case(true, fmt.Sprintf("%d-%d-%s", n, rounds, specImage(all[0])), func() any { return map[string]any{"goroutines": n, "rounds": rounds} }, "concurrent-validation")
	})
}
