package props

import (
	"bytes"
	"encoding/json"
	"fmt"
	"os"
	"os/exec"
	"path/filepath"
	"regexp"
	"sort"
	"strings"
	"testing"

	oci "github.com/opencontainers/runtime-spec/specs-go"
	yamlv3 "gopkg.in/yaml.v3"
	"pgregory.net/rapid"
	sigsyaml "sigs.k8s.io/yaml"
	"tags.cncf.io/container-device-interface/pkg/cdi"
	"tags.cncf.io/container-device-interface/schema"
	"tags.cncf.io/container-device-interface/verifharness/gen"
	"tags.cncf.io/container-device-interface/verifharness/layout"
	"tags.cncf.io/container-device-interface/verifharness/stats"
)

type cmdResult struct {
	stdout, stderr string
	code           int
}

func runTool(bin string, stdin []byte, args ...string) cmdResult {
	cmd := pinnedCommand(bin, args...)
	var so, se bytes.Buffer
	cmd.Stdout, cmd.Stderr = &so, &se
	if stdin != nil {
		cmd.Stdin = bytes.NewReader(stdin)
	}
	err := cmd.Run()
	code := 0
	if err != nil {
		if ee, ok := err.(*exec.ExitError); ok {
			code = ee.ExitCode()
		} else {
			code = -1
			se.WriteString(err.Error())
		}
	}
	return cmdResult{so.String(), se.String(), code}
}

var (
	reNumbered  = regexp.MustCompile(`(?m)^\s+\d+\. (.*)$`)
	reVendor    = regexp.MustCompile(`^"(.*)" \((\d+) CDI Spec Files\)$`)
	reClass     = regexp.MustCompile(`^(\S+) \((\d+) vendors: (.*)\)$`)
	reSpecFile  = regexp.MustCompile(`(?m)^\s+Spec File (.*)$`)
	reErrFile   = regexp.MustCompile(`(?m)^Spec file (.*):$`)
	reDirLine   = regexp.MustCompile(`(?m)^  (\S.*) \(priority (\d+)\)$`)
	reDevHeader = regexp.MustCompile(`(?m)^  (\S+=\S+) \((.*)\)$`)
)

// unindent removes n leading blanks from every line.
func unindent(s string, n int) string {
	var out []string
	for _, l := range strings.Split(s, "\n") {
		if len(l) >= n {
			l = l[n:]
		}
		out = append(out, l)
	}
	return strings.Join(out, "\n")
}

func decodeObject(text, format string) (any, error) {
	var v any
	if format == "json" {
		d := json.NewDecoder(strings.NewReader(text))
		d.UseNumber()
		err := d.Decode(&v)
		return v, err
	}
	err := yamlv3.Unmarshal([]byte(text), &v)
	return v, err
}

// asPrinted is the tree an object has once it went through the encoder of
// the requested output format (json: encoding/json; yaml: yaml.v3, which names
// untagged struct fields differently).
func asPrinted(obj any, format string) any {
	if format == "json" {
		return gen.ToTree(obj)
	}
	b, err := yamlv3.Marshal(obj)
	if err != nil {
		panic(err)
	}
	var v any
	if err := yamlv3.Unmarshal(b, &v); err != nil {
		panic(err)
	}
	return v
}

type c19Case struct {
	Layout any      `json:"layout"`
	Args   []string `json:"args"`
	Schema string   `json:"schema"`
}

func TestC19Cdi(t *testing.T) {
	rec := stats.For("C19", "cdi")
	bin := filepath.Join(os.Getenv("VERIF_BIN_DIR"), "cdi")
	if _, err := os.Stat(bin); err != nil {
		t.Fatalf("VERIF-UNDECIDED cdi binary not found: %v", err)
	}
	for _, d := range cdi.DefaultSpecDirs {
		if _, err := os.Stat(d); err == nil {
			rec.Label("env:default-spec-dir-exists")
		}
	}
	sc := newScratch(t)
	defer cdi.SetSpecValidator(nil)
	rapid.Check(t, func(t *rapid.T) {
		root := sc.dir()
		defer os.RemoveAll(root)
		// one layout in four may have missing directories: the library then reports directory-level errors as well
		l := layout.Generate(t, root, layout.Options{NoMissing: rapid.IntRange(0, 3).Draw(t, "allowMissing") != 0, MaxFiles: 3, Edits: c02Edits})
		if len(l.Slots) == 0 {
			l.Slots, l.Spelling = []int{0}, []string{l.Path(0)}
		}
		if err := l.Materialise(); err != nil {
			t.Fatalf("VERIF-HARNESS materialise: %v", err)
		}
		dirs := l.Paths()
		// one layout in three also holds a Spec that only the schema refuses (hook timeout below zero): whether it
		// counts as a file in error depends on the validator the tool installs - and on its being installed before
		// the directories are read
		if rapid.IntRange(0, 2).Draw(t, "schemaOnlyInvalid") == 0 {
			for _, sl := range l.Slots {
				if l.Pool[sl].Exists {
					_ = os.WriteFile(filepath.Join(l.Path(sl), "zz-timeout.json"), []byte(`{"cdiVersion":"0.6.0","kind":"v9.io/t","devices":[{"name":"t0","containerEdits":{"hooks":[{"hookName":"prestart","path":"/bin/true","timeout":-1}]}}]}`), 0o644)
					break
				}
			}
		}
		schemaName := rapid.SampledFrom([]string{"", "builtin", "none"}).Draw(t, "schema")
		// what the library computes for those directories with the same validator
		switch schemaName {
		case "none":
			cdi.SetSpecValidator(schema.NopSchema())
		default:
			cdi.SetSpecValidator(schema.BuiltinSchema())
		}
		waitForInotify()
		lib, _ := cdi.NewCache(cdi.WithSpecDirs(dirs...))
		defer lib.Configure(cdi.WithAutoRefresh(false))
		undecidedIfNoInotify(t, lib)
		libErrs := lib.GetErrors()
		var errKeys []string
		for k := range libErrs {
			errKeys = append(errKeys, k)
		}
		sort.Strings(errKeys)
		var dirArgs []string
		if rapid.Bool().Draw(t, "commaSeparated") {
			dirArgs = []string{"-d", strings.Join(dirs, ",")}
		} else {
			for _, d := range dirs {
				dirArgs = append(dirArgs, "--spec-dirs", d)
			}
		}
		if schemaName != "" {
			dirArgs = append(dirArgs, "--schema", schemaName)
		}
		nSub := rapid.IntRange(1, 3).Draw(t, "nSubcommands")
		for si := 0; si < nSub; si++ {
			sub := rapid.SampledFrom([]string{"devices", "devices-v", "vendors", "classes", "specs", "dirs", "validate", "inject"}).Draw(t, fmt.Sprintf("sub%d", si))
			format := rapid.SampledFrom([]string{"json", "yaml"}).Draw(t, fmt.Sprintf("fmt%d", si))
			var args []string
			var ociSpec *oci.Spec
			var patterns []string
			switch sub {
			case "devices-v":
				args = []string{"devices", "-v", "-o", format}
			case "inject":
				ociSpec = gen.OCISpec(t, fmt.Sprintf("oci%d", si), gen.OCIOpts{})
				ociPath := filepath.Join(root, "oci."+format)
				var data []byte
				if format == "json" {
					data, _ = json.Marshal(ociSpec)
				} else {
					data, _ = sigsyaml.Marshal(ociSpec)
				}
				_ = os.WriteFile(ociPath, data, 0o644)
				for i, n := 0, rapid.IntRange(1, 3).Draw(t, fmt.Sprintf("nPat%d", si)); i < n; i++ {
					patterns = append(patterns, rapid.SampledFrom([]string{"v1.com/gpu=*", "*", "v*/net.x=d?", "v2.org/gpu=d0", "v/gpu=2d", "*=d1", "nomatch/*", "v1.com/*=d0",
						// the whole glob syntax of the matcher: escapes and character classes
						`v1.com/gpu=d\0`, `v2.org/gpu\=d0`, `v1.com/gpu=d\?`, `v1.com/g[o-q]u=d[01]`, `[v]2.org/gpu=[^d]d`, `v\/gpu=2d`, `\v1.com/net.x=\d1`}).Draw(t, fmt.Sprintf("pat%d_%d", si, i)))
				}
				args = append([]string{"inject", "-o", format, ociPath}, patterns...)
			default:
				args = []string{sub}
			}
			full := append(append([]string{}, dirArgs...), args...)
			res := runTool(bin, nil, full...)
			if strings.Contains(res.stdout, "failed to create watcher") {
				t.Fatalf("VERIF-UNDECIDED the cdi tool could not create its watcher: no inotify instance left in this environment")
			}
			c := c19Case{Layout: l.Describe(), Args: full, Schema: schemaName}
			fail := func(msg string) {
				t.Fatalf("C19 violated: %s\ncommand: cdi %s\nexit status %d\nstdout:\n%s\nstderr:\n%s\nlibrary errors: %v\nlayout: %s", msg, strings.Join(full, " "), res.code, clip(res.stdout, 3000), clip(res.stderr, 500), errKeys, canonJSON(l.Describe()))
			}
			if len(libErrs) > 0 {
				// non-zero exit and exactly the files in error are reported
				if res.code == 0 {
					fail("the library reports cache errors for these directories but the command exits with status 0")
				}
				var got []string
				for _, m := range reErrFile.FindAllStringSubmatch(res.stdout, -1) {
					got = append(got, m[1])
				}
				sort.Strings(got)
				if strings.Join(got, "\n") != strings.Join(errKeys, "\n") {
					fail(fmt.Sprintf("files reported in error %v, the library reports %v", got, errKeys))
				}
				rec.Case(true, canonJSON(c), func() any { return c }, "sub:"+sub, "cache-errors", "schema:"+schemaName)
				continue
			}
			if res.code != 0 {
				fail("the library reports no cache error but the command exits non-zero")
			}
			numbered := func() []string {
				var out []string
				for _, m := range reNumbered.FindAllStringSubmatch(res.stdout, -1) {
					out = append(out, m[1])
				}
				return out
			}
			switch sub {
			case "devices":
				want := lib.ListDevices()
				if got := numbered(); strings.Join(got, "\n") != strings.Join(want, "\n") {
					fail(fmt.Sprintf("devices listed %v, the library lists %v", got, want))
				}
			case "devices-v":
				want := lib.ListDevices()
				hdr := reDevHeader.FindAllStringSubmatchIndex(res.stdout, -1)
				if len(hdr) != len(want) {
					fail(fmt.Sprintf("%d devices printed, the library lists %d: %v", len(hdr), len(want), want))
				}
				for i, h := range hdr {
					name, path := res.stdout[h[2]:h[3]], res.stdout[h[4]:h[5]]
					dev := lib.GetDevice(want[i])
					if name != want[i] || path != dev.GetSpec().GetPath() {
						fail(fmt.Sprintf("device %d printed as %s (%s), the library has %s (%s)", i, name, path, want[i], dev.GetSpec().GetPath()))
					}
					end := len(res.stdout)
					if i+1 < len(hdr) {
						end = hdr[i+1][0]
					}
					body := res.stdout[h[1]:end]
					if j := strings.Index(body, " global Spec containerEdits:"); j >= 0 {
						body = body[:strings.LastIndex(body[:j], "\n")+1]
					}
					obj, err := decodeObject(unindent(strings.TrimPrefix(body, "\n"), 4), format)
					if err != nil {
						fail(fmt.Sprintf("cannot parse the printed definition of %s: %v", name, err))
					}
					if a, b := gen.CanonTree(obj), gen.CanonTree(asPrinted(dev.Device, format)); a != b {
						fail(fmt.Sprintf("printed definition of %s is %s, the library has %s", name, a, b))
					}
				}
			case "vendors":
				want := lib.ListVendors()
				got := numbered()
				if len(got) != len(want) {
					fail(fmt.Sprintf("vendors listed %v, the library lists %v", got, want))
				}
				for i, g := range got {
					m := reVendor.FindStringSubmatch(g)
					if m == nil || m[1] != want[i] || m[2] != fmt.Sprint(len(lib.GetVendorSpecs(want[i]))) {
						fail(fmt.Sprintf("vendor line %q, the library has vendor %q with %d Spec files", g, want[i], len(lib.GetVendorSpecs(want[i]))))
					}
				}
			case "classes":
				want := lib.ListClasses()
				got := numbered()
				if len(got) != len(want) {
					fail(fmt.Sprintf("classes listed %v, the library lists %v", got, want))
				}
				for i, g := range got {
					m := reClass.FindStringSubmatch(g)
					if m == nil || m[1] != want[i] {
						fail(fmt.Sprintf("class line %q, the library has class %q", g, want[i]))
					}
				}
			case "specs":
				var want []string
				for _, v := range lib.ListVendors() {
					for _, s := range lib.GetVendorSpecs(v) {
						want = append(want, s.GetPath())
					}
				}
				var got []string
				for _, m := range reSpecFile.FindAllStringSubmatch(res.stdout, -1) {
					got = append(got, m[1])
				}
				sort.Strings(want)
				sort.Strings(got)
				if strings.Join(got, "\n") != strings.Join(want, "\n") {
					fail(fmt.Sprintf("Spec files listed %v, the library has %v", got, want))
				}
			case "dirs":
				var got []string
				for _, m := range reDirLine.FindAllStringSubmatch(res.stdout, -1) {
					got = append(got, m[1]+"@"+m[2])
				}
				var want []string
				for i, d := range lib.GetSpecDirectories() {
					want = append(want, fmt.Sprintf("%s@%d", d, i))
				}
				if strings.Join(got, "\n") != strings.Join(want, "\n") {
					fail(fmt.Sprintf("directories listed %v, the library uses %v", got, want))
				}
			case "validate":
				if !strings.Contains(res.stdout, "No CDI cache errors") {
					fail("validate does not report a clean cache")
				}
			case "inject":
				matches := map[string]bool{}
				for _, d := range lib.ListDevices() {
					for _, p := range patterns {
						if ok, _ := filepath.Match(p, d); ok {
							matches[d] = true
						}
					}
				}
				var devs []string
				for d := range matches {
					devs = append(devs, d)
				}
				sort.Strings(devs)
				expect := gen.CloneOCI(ociSpec)
				if _, err := lib.InjectDevices(expect, devs...); err != nil {
					t.Fatalf("VERIF-HARNESS library injection failed: %v", err)
				}
				i := strings.Index(res.stdout, "Updated OCI Spec:\n")
				if i < 0 {
					fail("no updated OCI Spec printed")
				}
				obj, err := decodeObject(unindent(res.stdout[i+len("Updated OCI Spec:\n"):], 2), format)
				if err != nil {
					fail(fmt.Sprintf("cannot parse the printed OCI Spec: %v", err))
				}
				if a, b := gen.CanonTree(obj), gen.CanonTree(asPrinted(expect, format)); a != b {
					fail(fmt.Sprintf("printed OCI Spec differs from library injection of %v: %s", devs, firstDiff(b, a)))
				}
				if len(devs) >= 2 {
					rec.Label("inject-matches-2-or-more")
				}
			}
			r := layout.Resolve(l)
			nontriv := false
			if _, nt := layoutLabels(l, r); nt {
				nontriv = true
			}
			if sub == "inject" && len(patterns) > 0 {
				files := map[string]bool{}
				for _, d := range lib.ListDevices() {
					for _, p := range patterns {
						if ok, _ := filepath.Match(p, d); ok {
							files[lib.GetDevice(d).GetSpec().GetPath()] = true
						}
					}
				}
				if len(files) >= 2 {
					nontriv = true
				}
			}
			repeated := false
			seenSlot := map[int]bool{}
			for _, sl := range l.Slots {
				if seenSlot[sl] {
					repeated = true
				}
				seenSlot[sl] = true
			}
			lbl := []string{"sub:" + sub, "clean-cache", "schema:" + schemaName, fmt.Sprintf("dirs-%d", len(dirs))}
			if repeated {
				lbl = append(lbl, "directory-repeated-on-command-line")
			}
			rec.Case(nontriv, canonJSON(c), func() any { return c }, lbl...)
		}
	})
}

func TestC19Validate(t *testing.T) {
	rec := stats.For("C19", "validate")
	bin := filepath.Join(os.Getenv("VERIF_BIN_DIR"), "validate")
	if _, err := os.Stat(bin); err != nil {
		t.Fatalf("VERIF-UNDECIDED validate binary not found: %v", err)
	}
	env := newC17Env(t)
	extPath := filepath.Join(env.dir, "ext", "schema.json")
	rapid.Check(t, func(t *rapid.T) {
		c := genC17(t)
		if _, isObj := c.Doc.(map[string]any); !isObj {
			return
		}
		enc := rapid.SampledFrom([]string{"json", "yaml"}).Draw(t, "encoding")
		data := gen.EncodeJSON(c.Doc)
		if enc == "yaml" {
			data = gen.EncodeYAML(c.Doc)
			if !gen.YAMLDecodesTo(data, c.Doc) {
				rec.Excluded("yaml-not-representable")
				return
			}
		}
		p := filepath.Join(env.dir, "doc."+enc)
		_ = os.WriteFile(p, data, 0o644)
		name := rapid.SampledFrom([]string{"builtin", "none", extPath, ""}).Draw(t, "schema")
		viaStdin := rapid.Bool().Draw(t, "stdin")
		var s *schema.Schema
		switch name {
		case "builtin", "":
			s = schema.BuiltinSchema()
		case "none":
			s = schema.NopSchema()
		default:
			s = env.external
		}
		var want error
		var res cmdResult
		var args []string
		if name != "" {
			args = []string{"--schema", name}
		} else {
			args = []string{"--schema", ""}
		}
		if viaStdin {
			want = s.ValidateData(data)
			res = runTool(bin, data, args...)
		} else {
			want = s.ValidateFile(p)
			res = runTool(bin, nil, append(args, p)...)
		}
		if (res.code != 0) != (want != nil) {
			t.Fatalf("C19 violated: validate %v (stdin=%v) exits with status %d, library validation says %s\nstdout: %s\nstderr: %s\ndocument: %s",
				args, viaStdin, res.code, verdictStr(want), clip(res.stdout, 500), clip(res.stderr, 500), clip(string(data), 2000))
		}
		labels := []string{"schema:" + filepath.Base(name), "encoding:" + enc}
		if viaStdin {
			labels = append(labels, "stdin")
		}
		if want == nil {
			labels = append(labels, "document-valid")
		} else {
			labels = append(labels, "document-invalid")
		}
		rec.Case(len(c.Mutations) > 0, gen.CanonTree(c.Doc)+name+enc+fmt.Sprint(viaStdin), func() any {
			return map[string]any{"args": args, "stdin": viaStdin, "encoding": enc, "mutations": c.Mutations, "doc": c.Doc}
		}, labels...)
	})
}
