package props

import (
	"bufio"
	"encoding/json"
	"fmt"
	"io"
	"os"
	"os/exec"
	"path/filepath"
	"runtime"
	"sort"
	"strings"
	"syscall"
	"testing"
	"time"

	"pgregory.net/rapid"
	"tags.cncf.io/container-device-interface/pkg/cdi"
	"tags.cncf.io/container-device-interface/verifharness/obs"
	"tags.cncf.io/container-device-interface/verifharness/stats"
)

// c20Model is the configuration a cache has after a sequence of Configure calls.
type c20Model struct {
	dirs []string
	auto bool
}

// freshFullView builds a new cache with the options, takes its view and shuts it down.
func freshFullView(m c20Model) string {
	for attempt := 0; ; attempt++ {
		c, _ := cdi.NewCache(cdi.WithSpecDirs(m.dirs...), cdi.WithAutoRefresh(m.auto))
		_ = c.Refresh()
		v := obs.FullView(c)
		noWatcher := false
		for _, e := range c.GetSpecDirErrors() {
			if strings.Contains(e.Error(), "failed to create watcher") {
				noWatcher = true
			}
		}
		if m.auto {
			_ = c.Configure(cdi.WithAutoRefresh(false))
		}
		if !noWatcher {
			return v
		}
		// the reference cache itself got no inotify instance (other processes of this user hold them all):
		// its view then carries directory errors the cache under test does not have. Wait and try again.
		if attempt >= 3 {
			return "VERIF-UNDECIDED the environment has no inotify instance left for the reference cache (fs.inotify.max_user_instances exhausted by other processes)"
		}
		waitForInotify()
	}
}

// agree polls (auto mode) until the cache's view equals that of a fresh cache.
func agree(view func() string, m c20Model, bound time.Duration) (ok bool, got, want string) {
	return agreeNorm(view, m, bound, func(s string) string { return s })
}

// agreeNorm compares the views after normalising both.
func agreeNorm(view func() string, m c20Model, bound time.Duration, norm func(string) string) (ok bool, got, want string) {
	start := time.Now()
	for {
		want = freshFullView(m)
		got = view()
		if norm(got) == norm(want) {
			return true, got, want
		}
		if !m.auto || time.Since(start) > bound {
			return false, got, want
		}
		time.Sleep(5 * time.Millisecond)
	}
}

// settle waits until the inotify bookkeeping of this process matches, or 3 s.
func settleInotify(wantFds, wantWatches int) (fds, watches int) {
	deadline := time.Now().Add(3 * time.Second)
	for {
		fds, watches = obs.Inotify()
		if (fds == wantFds && watches == wantWatches) || time.Now().After(deadline) {
			return
		}
		time.Sleep(5 * time.Millisecond)
	}
}

func distinctExisting(dirs []string) int {
	seen := map[string]bool{}
	for _, d := range dirs {
		d = filepath.Clean(d)
		if st, err := os.Stat(d); err == nil && st.IsDir() {
			seen[d] = true
		}
	}
	return len(seen)
}

var c20Seq int

func c20Doc(t *rapid.T, label string) []byte {
	c20Seq++
	kind := rapid.SampledFrom([]string{"v1.com/gpu", "v2.org/gpu"}).Draw(t, label+"kind")
	dev := rapid.SampledFrom([]string{"a", "b"}).Draw(t, label+"dev")
	if rapid.IntRange(0, 7).Draw(t, label+"bad") == 0 {
		return []byte("{bad")
	}
	return []byte(fmt.Sprintf(`{"cdiVersion":"0.3.0","kind":"%s","devices":[{"name":"%s","containerEdits":{"env":["M=%d"]}}]}`, kind, dev, c20Seq))
}

// exhaustDescriptors lowers RLIMIT_NOFILE to the current table size and fills
// the holes, so that no new descriptor can be opened. The returned function
// ends the shortage.
func exhaustDescriptors() (restore func(), err error) {
	var old syscall.Rlimit
	if err := syscall.Getrlimit(syscall.RLIMIT_NOFILE, &old); err != nil {
		return nil, err
	}
	maxFd := 0
	ents, _ := os.ReadDir("/proc/self/fd")
	for _, e := range ents {
		var n int
		fmt.Sscan(e.Name(), &n)
		if n > maxFd {
			maxFd = n
		}
	}
	lim := syscall.Rlimit{Cur: uint64(maxFd + 1), Max: old.Max}
	if err := syscall.Setrlimit(syscall.RLIMIT_NOFILE, &lim); err != nil {
		return nil, err
	}
	var fillers []int
	for {
		fd, err := syscall.Open("/dev/null", syscall.O_RDONLY|syscall.O_CLOEXEC, 0)
		if err != nil {
			break
		}
		fillers = append(fillers, fd)
	}
	return func() {
		for _, fd := range fillers {
			_ = syscall.Close(fd)
		}
		_ = syscall.Setrlimit(syscall.RLIMIT_NOFILE, &old)
	}, nil
}

type c20Step struct {
	Op string `json:"op"`
}

func TestC20Rapid(t *testing.T) {
	rec := stats.For("C20", "rapid")
	sc := newScratch(t)
	baseFds, _ := obs.Inotify()
	if baseFds != 0 {
		t.Fatalf("VERIF-HARNESS inotify descriptors open before the test: %d", baseFds)
	}
	rapid.Check(t, func(t *rapid.T) {
		root := sc.dir()
		defer os.RemoveAll(root)
		pool := []string{filepath.Join(root, "p0"), filepath.Join(root, "p1"), filepath.Join(root, "p2"), filepath.Join(root, "p3")}
		for i, d := range pool {
			if i < 2 || rapid.Bool().Draw(t, fmt.Sprintf("p%dExists", i)) {
				_ = os.MkdirAll(d, 0o755)
				if rapid.Bool().Draw(t, fmt.Sprintf("p%dFile", i)) {
					_ = os.WriteFile(filepath.Join(d, "init.json"), c20Doc(t, fmt.Sprintf("init%d", i)), 0o644)
				}
			}
		}
		drawDirs := func(t *rapid.T, label string) []string {
			n := rapid.IntRange(0, 3).Draw(t, label+"n")
			var out []string
			for i := 0; i < n; i++ {
				out = append(out, rapid.SampledFrom(pool).Draw(t, fmt.Sprintf("%s%d", label, i)))
			}
			return out
		}
		m := c20Model{dirs: drawDirs(t, "initDirs"), auto: rapid.Bool().Draw(t, "initAuto")}
		waitForInotify()
		cache, _ := cdi.NewCache(cdi.WithSpecDirs(m.dirs...), cdi.WithAutoRefresh(m.auto))
		defer func() { _ = cache.Configure(cdi.WithAutoRefresh(false)) }()
		var history []c20Step
		reconfigs, autoSwitches, dirChanges, windows := 0, 0, 0, 0
		fail := func(format string, a ...any) {
			t.Fatalf("C20 violated: %s\nhistory: %s\nfinal options: dirs=%v auto=%v", fmt.Sprintf(format, a...), canonJSON(history), m.dirs, m.auto)
		}
		lastStale := ""
		var prevNames []string
		noWatcher := false // auto-refresh is on but the watcher could not be created (descriptor shortage)
		check := func(t *rapid.T) {
			// half of the time the first thing asked of the cache after the step is Refresh() and the error report,
			// before any device query: that alone must already reflect the current directories
			if m.auto && !noWatcher && rapid.Bool().Draw(t, "errorsFirst") {
				errKeys := func(c *cdi.Cache) string {
					_ = c.Refresh()
					var ks []string
					for k := range c.GetErrors() {
						ks = append(ks, k)
					}
					sort.Strings(ks)
					return strings.Join(ks, "\n")
				}
				start := time.Now()
				for {
					ref, _ := cdi.NewCache(cdi.WithSpecDirs(m.dirs...), cdi.WithAutoRefresh(false))
					want := errKeys(ref)
					// (directory-level entries exist only in auto mode: compare file-level keys and the missing-directory ones the manual reference cannot have)
					got := errKeys(cache)
					strip := func(v string) string {
						var out []string
						for _, l := range strings.Split(v, "\n") {
							isDir := false
							for _, d := range m.dirs {
								if l == filepath.Clean(d) {
									isDir = true
								}
							}
							if !isDir && l != "" {
								out = append(out, l)
							}
						}
						return strings.Join(out, "\n")
					}
					if strip(got) == strip(want) {
						break
					}
					if time.Since(start) > 10*time.Second {
						fail("Refresh() and GetErrors(), asked before any device query, do not reflect the current directories 10 s after the last change\ncache reports:\n%s\na new cache reports:\n%s", strip(got), strip(want))
					}
					time.Sleep(5 * time.Millisecond)
				}
			}
			// or (one time in three, auto mode with or without a watcher): the first thing asked is GetDevice, and only
			// GetDevice, for the devices the cache listed at the previous check and those a new cache has now
			if m.auto && rapid.IntRange(0, 2).Draw(t, "getDeviceFirst") == 0 {
				repr := func(c *cdi.Cache, n string) string {
					d := c.GetDevice(n)
					if d == nil {
						return "nil"
					}
					b, _ := json.Marshal(d.Device)
					return fmt.Sprintf("%s|%d|%s", d.GetSpec().GetPath(), d.GetSpec().GetPriority(), b)
				}
				start := time.Now()
				for {
					ref, _ := cdi.NewCache(cdi.WithSpecDirs(m.dirs...), cdi.WithAutoRefresh(false))
					names := append(append([]string{}, prevNames...), ref.ListDevices()...)
					diff := ""
					for _, n := range names {
						if got, want := repr(cache, n), repr(ref, n); got != want && diff == "" {
							diff = fmt.Sprintf("GetDevice(%s)\ncache:     %s\nnew cache: %s", n, got, want)
						}
					}
					if diff == "" {
						break
					}
					if time.Since(start) > 10*time.Second {
						fail("GetDevice, asked before any other query, does not reflect the current directories 10 s after the last change (watcher present: %v)\n%s", !noWatcher, diff)
					}
					time.Sleep(5 * time.Millisecond)
				}
				rec.Label("get-device-asked-first")
			}
			defer func() { prevNames = cache.ListDevices() }()
			if m.auto || lastStale == "" {
				norm := func(s string) string { return s }
				if noWatcher {
					// the watcher could not be created: directory-level error keys differ by design
					norm = stripDirLines
				}
				ok, got, want := agreeNorm(func() string { return obs.FullView(cache) }, m, 10*time.Second, norm)
				if !ok {
					fail("the reconfigured cache differs from a new cache created with the final options\ncache:\n%s\nnew cache:\n%s", got, want)
				}
			} else {
				// manual mode after a directory change: stale until an explicit refresh
				time.Sleep(20 * time.Millisecond)
				if got := obs.FullView(cache); got != lastStale {
					fail("auto-refresh is off, yet the view changed without Refresh()\nbefore:\n%s\nafter:\n%s", lastStale, got)
				}
				_ = cache.Refresh()
				if ok, got, want := agree(func() string { return obs.FullView(cache) }, m, 0); !ok {
					fail("after an explicit Refresh() the cache differs from a new cache with the final options\ncache:\n%s\nnew cache:\n%s", got, want)
				}
			}
			lastStale = ""
			// resources: one inotify descriptor iff auto-refresh is on, one watch per existing distinct directory
			wantFds, wantWatches := 0, 0
			if m.auto && !noWatcher {
				wantFds, wantWatches = 1, distinctExisting(m.dirs)
			}
			if m.auto && !noWatcher {
				undecidedIfNoInotify(t, cache)
			}
			_ = obs.FullView(cache) // a query lets the cache pick up directories that appeared
			if fds, watches := settleInotify(wantFds, wantWatches); fds != wantFds || watches != wantWatches {
				fail("the process holds %d inotify descriptors with %d watches; with auto-refresh=%v over %v it should hold %d with %d", fds, watches, m.auto, m.dirs, wantFds, wantWatches)
			}
		}
		check(t)
		t.Repeat(map[string]func(*rapid.T){
			"configure": func(t *rapid.T) {
				var opts []cdi.Option
				var desc []string
				for i, n := 0, rapid.IntRange(0, 3).Draw(t, "nOpts"); i < n; i++ {
					if rapid.Bool().Draw(t, fmt.Sprintf("opt%dIsDirs", i)) {
						d := drawDirs(t, fmt.Sprintf("opt%dDirs", i))
						opts = append(opts, cdi.WithSpecDirs(d...))
						if strings.Join(d, ",") != strings.Join(m.dirs, ",") {
							dirChanges++
						}
						m.dirs = d
						desc = append(desc, fmt.Sprintf("dirs=%v", relAll(root, d)))
					} else {
						a := rapid.Bool().Draw(t, fmt.Sprintf("opt%dAuto", i))
						opts = append(opts, cdi.WithAutoRefresh(a))
						if a != m.auto {
							autoSwitches++
						}
						m.auto = a
						desc = append(desc, fmt.Sprintf("auto=%v", a))
					}
				}
				if err := cache.Configure(opts...); err != nil {
					fail("Configure returned %v", err)
				}
				if len(opts) > 0 {
					noWatcher = false
				}
				reconfigs++
				history = append(history, c20Step{"configure " + strings.Join(desc, " ")})
			},
			"changeDirectory": func(t *rapid.T) {
				d := rapid.SampledFrom(pool).Draw(t, "dir")
				before := obs.FullView(cache)
				var op string
				switch rapid.IntRange(0, 4).Draw(t, "what") {
				case 0, 1:
					if err := os.MkdirAll(d, 0o755); err != nil {
						t.Skip(err.Error())
					}
					name := rapid.SampledFrom([]string{"x.json", "y.yaml", "init.json"}).Draw(t, "name")
					tmp := filepath.Join(d, ".tmp")
					_ = os.WriteFile(tmp, c20Doc(t, "chg"), 0o644)
					_ = os.Rename(tmp, filepath.Join(d, name))
					op = "put " + relAll(root, []string{filepath.Join(d, name)})[0]
				case 2:
					ents, _ := os.ReadDir(d)
					if len(ents) == 0 {
						t.Skip("nothing to remove")
					}
					_ = os.Remove(filepath.Join(d, ents[0].Name()))
					op = "remove " + relAll(root, []string{filepath.Join(d, ents[0].Name())})[0]
				case 3:
					_ = os.RemoveAll(d)
					op = "rmdir " + relAll(root, []string{d})[0]
				case 4:
					if _, err := os.Stat(d); err != nil {
						t.Skip("no directory to rename")
					}
					c20Seq++
					_ = os.Rename(d, filepath.Join(root, fmt.Sprintf("away%d", c20Seq)))
					op = "mvdir-away " + relAll(root, []string{d})[0]
				}
				if !m.auto {
					lastStale = before
				}
				history = append(history, c20Step{op})
			},
			"descriptorShortage": func(t *rapid.T) {
				// reconfigure while no descriptor can be opened, then end the shortage.
				// Known finding F16 (known_findings.jsonl) is excluded by construction: if the
				// cache holds a watcher when the shortage begins, stopping it inside Configure
				// frees exactly the descriptors the new watcher needs, the watcher is created
				// but the directory scan fails with EMFILE and the cache stays empty. So the
				// watcher is stopped first and the freed slots are filled as well: the
				// shortage is then total for the Configure call under test.
				if m.auto {
					rec.Excluded("known:F16 partial shortage (old watcher's descriptors reusable) made total")
					_ = cache.Configure(cdi.WithAutoRefresh(false))
					m.auto = false
					history = append(history, c20Step{"configure auto=false (before the shortage)"})
				}
				restore, err := exhaustDescriptors()
				if err != nil {
					t.Skip(err.Error())
				}
				d := drawDirs(t, "shortDirs")
				a := rapid.Bool().Draw(t, "shortAuto")
				perr := catch(func() {
					_ = cache.Configure(cdi.WithSpecDirs(d...), cdi.WithAutoRefresh(a))
					_ = cache.ListDevices()
					_ = cache.GetErrors()
				})
				restore()
				if perr != nil {
					fail("panic during a descriptor shortage: %v", perr)
				}
				if strings.Join(d, ",") != strings.Join(m.dirs, ",") {
					dirChanges++
				}
				m.dirs, m.auto = d, a
				windows++
				reconfigs++
				history = append(history, c20Step{fmt.Sprintf("configure during descriptor shortage dirs=%v auto=%v", relAll(root, d), a)})
				// a cache set up during the shortage answers every query from the current contents
				// (in manual mode: after the explicit refresh that mode requires)
				if !m.auto {
					_ = cache.Refresh()
				}
				// directory-level keys may differ (monitoring failed during the shortage); devices and file errors must not
				ok, got, want := agreeNorm(func() string { return obs.FullView(cache) }, c20Model{m.dirs, m.auto}, 10*time.Second, stripDirLines)
				if !ok {
					fail("after a descriptor shortage the cache does not answer from the current directory contents\ncache:\n%s\nnew cache:\n%s", got, want)
				}
				// until the next Configure the cache runs without a watcher (it refreshes on every query)
				noWatcher = m.auto
			},
			"": check,
		})
		labels := []string{}
		if autoSwitches > 0 {
			labels = append(labels, "auto-switched")
		}
		if dirChanges > 0 {
			labels = append(labels, "dir-list-changed")
		}
		if windows > 0 {
			labels = append(labels, "descriptor-shortage")
		}
		rec.Add("steps", int64(len(history)))
		rec.Add("reconfigurations", int64(reconfigs))
		rec.Case(reconfigs >= 3 && (autoSwitches > 0 || dirChanges > 0) || windows > 0, canonJSON(history), func() any {
			return map[string]any{"history": history, "finalDirs": relAll(root, m.dirs), "finalAuto": m.auto}
		}, labels...)
	})
	if fds, watches := settleInotify(0, 0); fds != 0 || watches != 0 {
		t.Fatalf("C20 violated: after all caches were switched to manual mode the process still holds %d inotify descriptors (%d watches)", fds, watches)
	}
}

func stripDirLines(v string) string {
	var out []string
	for _, l := range strings.Split(v, "\n") {
		if strings.HasPrefix(l, "errors:") || strings.HasPrefix(l, "dirErrors:") {
			continue
		}
		out = append(out, l)
	}
	return strings.Join(out, "\n")
}

func relAll(root string, ps []string) []string {
	var out []string
	for _, p := range ps {
		r, err := filepath.Rel(root, p)
		if err != nil {
			r = p
		}
		out = append(out, r)
	}
	return out
}

// TestC20Growth: descriptors, watches and goroutines after 5, 50 and 200
// reconfigurations of one cache.
func TestC20Growth(t *testing.T) {
	rec := stats.For("C20", "growth")
	root := t.TempDir()
	dirs := []string{filepath.Join(root, "a"), filepath.Join(root, "b"), filepath.Join(root, "missing")}
	_ = os.MkdirAll(dirs[0], 0o755)
	_ = os.MkdirAll(dirs[1], 0o755)
	_ = os.WriteFile(filepath.Join(dirs[0], "x.json"), []byte(`{"cdiVersion":"0.3.0","kind":"v1.com/gpu","devices":[{"name":"a","containerEdits":{"env":["M=1"]}}]}`), 0o644)
	cache, _ := cdi.NewCache(cdi.WithSpecDirs(dirs...), cdi.WithAutoRefresh(true))
	type sample struct{ N, Fds, Inotify, Watches, Goroutines int }
	var samples []sample
	n := 0
	reconf := func() {
		n++
		switch n % 4 {
		case 0:
			_ = cache.Configure(cdi.WithSpecDirs(dirs[0], dirs[1]), cdi.WithAutoRefresh(true))
		case 1:
			_ = cache.Configure(cdi.WithAutoRefresh(false))
		case 2:
			_ = cache.Configure(cdi.WithSpecDirs(dirs[1], dirs[2], dirs[0]))
		case 3:
			_ = cache.Configure(cdi.WithAutoRefresh(true), cdi.WithSpecDirs(dirs...))
		}
		_ = cache.ListDevices()
	}
	for _, upto := range []int{4, 52, 200, 400} {
		for n < upto {
			reconf()
		}
		// n%4 == 0: auto on over two existing directories
		fds, watches := settleInotify(1, 2)
		time.Sleep(50 * time.Millisecond)
		runtime.GC()
		samples = append(samples, sample{n, obs.OpenFDs(), fds, watches, runtime.NumGoroutine()})
	}
	first := samples[0]
	for _, s := range samples[1:] {
		if s.Fds > first.Fds+2 || s.Goroutines > first.Goroutines+2 || s.Inotify != 1 || s.Watches != 2 {
			t.Fatalf("C20 violated: resources grow with the number of reconfigurations: %+v", samples)
		}
	}
	_ = cache.Configure(cdi.WithAutoRefresh(false))
	if fds, _ := settleInotify(0, 0); fds != 0 {
		t.Fatalf("C20 violated: switching auto-refresh off leaves %d inotify descriptors open", fds)
	}
	rec.Add("reconfigurations", int64(n))
	rec.Case(true, canonJSON(samples), func() any { return samples }, "growth-series")
	rec.Case(true, "growth-second", nil, "growth-series")
}

// ---------------------------------------------------------------- the package-level default cache

type defcacheProc struct {
	cmd *exec.Cmd
	in  io.WriteCloser
	out *bufio.Reader
}

func startDefcache() (*defcacheProc, error) {
	cmd := pinnedCommand(filepath.Join(os.Getenv("VERIF_BIN_DIR"), "vhelper"), "defcache")
	in, _ := cmd.StdinPipe()
	out, _ := cmd.StdoutPipe()
	cmd.Stderr = os.Stderr
	if err := cmd.Start(); err != nil {
		return nil, err
	}
	return &defcacheProc{cmd, in, bufio.NewReaderSize(out, 1<<20)}, nil
}

func (p *defcacheProc) call(req map[string]any) (map[string]any, error) {
	b, _ := json.Marshal(req)
	if _, err := p.in.Write(append(b, '\n')); err != nil {
		return nil, err
	}
	line, err := p.out.ReadBytes('\n')
	if err != nil {
		return nil, err
	}
	var resp map[string]any
	err = json.Unmarshal(line, &resp)
	return resp, err
}

func (p *defcacheProc) stop() {
	_ = p.in.Close()
	_ = p.cmd.Wait()
}

func TestC20DefaultCache(t *testing.T) {
	rec := stats.For("C20", "defcache")
	if _, err := os.Stat(filepath.Join(os.Getenv("VERIF_BIN_DIR"), "vhelper")); err != nil {
		t.Fatalf("VERIF-UNDECIDED vhelper binary not found: %v", err)
	}
	sc := newScratch(t)
	rapid.Check(t, func(t *rapid.T) {
		root := sc.dir()
		defer os.RemoveAll(root)
		pool := []string{filepath.Join(root, "p0"), filepath.Join(root, "p1"), filepath.Join(root, "p2")}
		for i, d := range pool[:2] {
			_ = os.MkdirAll(d, 0o755)
			_ = os.WriteFile(filepath.Join(d, "init.json"), c20Doc(t, fmt.Sprintf("init%d", i)), 0o644)
		}
		p, err := startDefcache()
		if err != nil {
			t.Fatalf("VERIF-UNDECIDED %v", err)
		}
		defer p.stop()
		// the default cache starts from the package defaults
		m := c20Model{dirs: append([]string{}, cdi.DefaultSpecDirs...), auto: true}
		var history []string
		usedFirst := rapid.Bool().Draw(t, "useBeforeConfigure")
		view := func() string {
			r, err := p.call(map[string]any{"op": "view"})
			if err != nil {
				t.Fatalf("C20 violated: the helper process driving the default cache died: %v\nhistory: %v", err, history)
			}
			return r["view"].(string)
		}
		if usedFirst {
			_ = view()
			history = append(history, "first use (view)")
		}
		nSteps := rapid.IntRange(1, 6).Draw(t, "nSteps")
		reconfigs := 0
		for i := 0; i < nSteps; i++ {
			switch rapid.IntRange(0, 2).Draw(t, fmt.Sprintf("step%d", i)) {
			case 0, 1:
				req := map[string]any{"op": "configure"}
				var desc []string
				if rapid.Bool().Draw(t, fmt.Sprintf("step%dDirs", i)) {
					n := rapid.IntRange(0, 3).Draw(t, fmt.Sprintf("step%dN", i))
					d := []string{}
					for j := 0; j < n; j++ {
						d = append(d, rapid.SampledFrom(pool).Draw(t, fmt.Sprintf("step%dd%d", i, j)))
					}
					req["dirs"] = d
					m.dirs = d
					desc = append(desc, fmt.Sprintf("dirs=%v", relAll(root, d)))
				}
				if rapid.Bool().Draw(t, fmt.Sprintf("step%dHasAuto", i)) {
					a := rapid.Bool().Draw(t, fmt.Sprintf("step%dAuto", i))
					req["auto"] = a
					m.auto = a
					desc = append(desc, fmt.Sprintf("auto=%v", a))
				}
				if _, err := p.call(req); err != nil {
					t.Fatalf("C20 violated: the helper process died in cdi.Configure: %v\nhistory: %v", err, history)
				}
				reconfigs++
				history = append(history, "cdi.Configure "+strings.Join(desc, " "))
			case 2:
				d := rapid.SampledFrom(pool).Draw(t, fmt.Sprintf("step%dDir", i))
				_ = os.MkdirAll(d, 0o755)
				tmp := filepath.Join(d, ".tmp")
				_ = os.WriteFile(tmp, c20Doc(t, fmt.Sprintf("step%d", i)), 0o644)
				_ = os.Rename(tmp, filepath.Join(d, "x.json"))
				history = append(history, "put "+relAll(root, []string{d})[0]+"/x.json")
				if !m.auto {
					_, _ = p.call(map[string]any{"op": "refresh"})
					history = append(history, "cdi.Refresh")
				}
			}
			ok, got, want := agree(view, m, 10*time.Second)
			if !ok {
				t.Fatalf("C20 violated: the default cache differs from a new cache created with the final options\nhistory: %v\ndefault cache:\n%s\nnew cache (dirs=%v auto=%v):\n%s", history, got, m.dirs, m.auto, want)
			}
		}
		r, _ := p.call(map[string]any{"op": "resources"})
		wantIno := 0.0
		if m.auto {
			wantIno = 1
		}
		if r["inotify"].(float64) != wantIno {
			// allow the watcher a moment to shut down
			time.Sleep(200 * time.Millisecond)
			r, _ = p.call(map[string]any{"op": "resources"})
			if r["inotify"].(float64) != wantIno {
				t.Fatalf("C20 violated: the default cache process holds %v inotify descriptors, want %v (auto=%v)\nhistory: %v", r["inotify"], wantIno, m.auto, history)
			}
		}
		labels := []string{}
		if usedFirst {
			labels = append(labels, "configured-after-first-use")
		} else {
			labels = append(labels, "configured-before-first-use")
		}
		rec.Case(reconfigs >= 2, canonJSON(history), func() any { return map[string]any{"history": history} }, labels...)
	})
}

// TestC20KnownF16 probes the recorded finding F16: a Configure during a
// partial descriptor shortage in which the watcher can be created (from the
// descriptors of the watcher it replaces) while the directory scan fails.
// It never fails the check; it reports whether the finding is still present.
func TestC20KnownF16(t *testing.T) {
	rec := stats.For("C20", "known-f16")
	root := t.TempDir()
	d1, d2 := filepath.Join(root, "d1"), filepath.Join(root, "d2")
	_ = os.MkdirAll(d1, 0o755)
	_ = os.MkdirAll(d2, 0o755)
	_ = os.WriteFile(filepath.Join(d2, "x.json"), []byte(`{"cdiVersion":"0.3.0","kind":"v1.com/gpu","devices":[{"name":"a","containerEdits":{"env":["M=1"]}}]}`), 0o644)
	cache, _ := cdi.NewCache(cdi.WithSpecDirs(d1), cdi.WithAutoRefresh(true))
	defer cache.Configure(cdi.WithAutoRefresh(false))
	restore, err := exhaustDescriptors()
	if err != nil {
		t.Skip(err.Error())
	}
	_ = cache.Configure(cdi.WithSpecDirs(d2), cdi.WithAutoRefresh(true))
	restore()
	devs := cache.ListDevices()
	if len(devs) == 0 {
		fmt.Println("KNOWN-FINDING-PROBE F16 present: after Configure during a partial descriptor shortage ListDevices() is empty although the directory holds a valid Spec")
		rec.Label("known-finding-F16-present")
	} else {
		fmt.Println("KNOWN-FINDING-PROBE F16 not reproduced on this tree")
		rec.Label("known-finding-F16-not-reproduced")
	}
}

// TestC20InFlight: "automatic refresh active iff enabled" at the moment it is
// switched off. Events are made to be in flight (the watcher goroutine is kept
// busy by a large first directory) when Configure(WithAutoRefresh(false)) is
// called; a Spec put into the second directory right after Configure returned
// must not show up until Refresh() is called (F22: the event already taken
// off the channel was still handled, with a full rescan, after the watcher
// had been stopped).
func TestC20InFlight(t *testing.T) {
	rec := stats.For("C20", "inflight")
	sc := newScratch(t)
	rapid.Check(t, func(t *rapid.T) {
		root := sc.dir()
		defer os.RemoveAll(root)
		big, small := filepath.Join(root, "big"), filepath.Join(root, "small")
		_ = os.MkdirAll(big, 0o755)
		_ = os.MkdirAll(small, 0o755)
		nFiles := rapid.IntRange(50, 250).Draw(t, "filesInFirstDirectory")
		for i := 0; i < nFiles; i++ {
			_ = os.WriteFile(filepath.Join(big, fmt.Sprintf("f%04d.json", i)), []byte(fmt.Sprintf(`{"cdiVersion":"0.3.0","kind":"v1.com/gpu","devices":[{"name":"d%04d","containerEdits":{"env":["M=0"]}}]}`, i)), 0o644)
		}
		waitForInotify()
		cache, _ := cdi.NewCache(cdi.WithSpecDirs(big, small), cdi.WithAutoRefresh(true))
		defer func() { _ = cache.Configure(cdi.WithAutoRefresh(false)) }()
		undecidedIfNoInotify(t, cache)
		rounds := rapid.IntRange(1, 3).Draw(t, "rounds")
		heldRounds := 0
		for r := 0; r < rounds; r++ {
			burst := rapid.IntRange(1, 4).Draw(t, fmt.Sprintf("burst%d", r))
			// harness-owned schedule (drawn): the cache's exported mutex is held while the events are produced, so the
			// watcher goroutine has taken the first event off its channel and waits for the mutex; Configure is
			// started in that state and the two are released together
			held := rapid.Bool().Draw(t, fmt.Sprintf("held%d", r))
			if held {
				cache.Lock()
			}
			for b := 0; b < burst; b++ {
				// one event in the first directory
				tmp := filepath.Join(big, ".tmp")
				_ = os.WriteFile(tmp, []byte(fmt.Sprintf(`{"cdiVersion":"0.3.0","kind":"v1.com/gpu","devices":[{"name":"d0000","containerEdits":{"env":["M=%d"]}}]}`, r*10+b+1)), 0o644)
				_ = os.Rename(tmp, filepath.Join(big, "f0000.json"))
				time.Sleep(time.Duration(rapid.IntRange(0, 3000).Draw(t, fmt.Sprintf("gap%d_%d", r, b))) * time.Microsecond)
			}
			if held {
				time.Sleep(2 * time.Millisecond)
				cfgDone := make(chan error, 1)
				go func() { cfgDone <- cache.Configure(cdi.WithAutoRefresh(false)) }()
				time.Sleep(time.Duration(rapid.IntRange(0, 2000).Draw(t, fmt.Sprintf("release%d", r))) * time.Microsecond)
				cache.Unlock()
				if err := <-cfgDone; err != nil {
					t.Fatalf("VERIF-HARNESS Configure: %v", err)
				}
				heldRounds++
			} else if err := cache.Configure(cdi.WithAutoRefresh(false)); err != nil {
				t.Fatalf("VERIF-HARNESS Configure: %v", err)
			}
			x := filepath.Join(small, "x.json")
			_ = os.WriteFile(x, []byte(`{"cdiVersion":"0.3.0","kind":"v2.org/late","devices":[{"name":"x","containerEdits":{"env":["X=1"]}}]}`), 0o644)
			time.Sleep(150 * time.Millisecond)
			if d := cache.GetDevice("v2.org/late=x"); d != nil {
				t.Fatalf("C20 violated: auto-refresh was switched off (Configure had returned), then %s was written, and without any Refresh() the cache knows v2.org/late=x: an automatic refresh ran while auto-refresh is disabled\nfirst directory: %d files, burst of %d events before Configure", x, nFiles, burst)
			}
			if err := cache.Refresh(); err != nil {
				t.Fatalf("VERIF-HARNESS Refresh: %v", err)
			}
			if d := cache.GetDevice("v2.org/late=x"); d == nil {
				t.Fatalf("C20 violated: after an explicit Refresh() the manual cache does not know v2.org/late=x")
			}
			_ = os.Remove(x)
			if err := cache.Configure(cdi.WithAutoRefresh(true)); err != nil {
				t.Fatalf("VERIF-HARNESS Configure: %v", err)
			}
			undecidedIfNoInotify(t, cache)
		}
		c := map[string]any{"files": nFiles, "rounds": rounds}
		labels := []string{"auto-switched-off-with-events-in-flight"}
		if heldRounds > 0 {
			labels = append(labels, "watcher-held-at-the-mutex-when-Configure-starts")
		}
		rec.Case(true, canonJSON(c)+fmt.Sprint(rec), func() any { return c }, labels...)
	})
}
