package props

import (
	"bufio"
	"encoding/json"
	"fmt"
	"os"
	"os/exec"
	"path/filepath"
	"runtime"
	"runtime/debug"
	"strconv"
	"strings"
	"sync/atomic"
	"testing"
	"time"

	"golang.org/x/sys/unix"
	yamlv3c "gopkg.in/yaml.v3"
	"tags.cncf.io/container-device-interface/pkg/cdi"
	"tags.cncf.io/container-device-interface/verifharness/stats"
)

func TestMain(m *testing.M) {
	code := m.Run()
	stats.FlushAll()
	os.Exit(code)
}

// tier returns "quick" or "thorough".
func tier() string {
	if os.Getenv("VERIF_TIER") == "thorough" {
		return "thorough"
	}
	return "quick"
}

// envInt reads an integer parameter passed by the driver.
func envInt(name string, def int) int {
	if v := os.Getenv(name); v != "" {
		if n, err := strconv.Atoi(v); err == nil {
			return n
		}
	}
	return def
}

// shard returns (index, count) of this process among the driver's shards.
func shard() (int, int) {
	n := envInt("VERIF_SHARDS", 1)
	i := envInt("VERIF_SHARD", 0)
	if n < 1 {
		n = 1
	}
	return i % n, n
}

// catch runs f and returns a non-nil error if it panicked.
func catch(f func()) (err error) {
	defer func() {
		if r := recover(); r != nil {
			err = fmt.Errorf("PANIC: %v\n%s", r, debug.Stack())
		}
	}()
	f()
	return nil
}

var replaySeq atomic.Int64

// saveReplay writes a replayable description of a failing case for
// non-rapid (enumerating, fuzzing, stress) tests and returns its path.
func saveReplay(prop, kind string, c any) string {
	dir := os.Getenv("VERIF_REPLAY_DIR")
	if dir == "" {
		dir = os.TempDir()
	}
	_ = os.MkdirAll(dir, 0o755)
	p := filepath.Join(dir, fmt.Sprintf("%s-%s-%d-%d.json", prop, kind, os.Getpid(), replaySeq.Add(1)))
	b, _ := json.MarshalIndent(map[string]any{"prop": prop, "kind": kind, "case": c}, "", " ")
	_ = os.WriteFile(p, b, 0o644)
	return p
}

// regressCase is one line of /verif/regressions/<prop>.jsonl.
type regressCase struct {
	Prop string          `json:"prop"`
	Kind string          `json:"kind"`
	Note string          `json:"note"`
	Case json.RawMessage `json:"case"`
}

// loadRegressions reads the saved minimal inputs for a property. The files
// are also the format written by saveReplay (one object per file), so a
// replay file can be appended to the corpus as one line.
func loadRegressions(t testing.TB, prop string) []regressCase {
	var out []regressCase
	paths := []string{}
	if p := os.Getenv("VERIF_REPLAY_FILE"); p != "" {
		paths = append(paths, p)
	} else if d := os.Getenv("VERIF_REGRESS_DIR"); d != "" {
		paths = append(paths, filepath.Join(d, prop+".jsonl"))
	}
	for _, p := range paths {
		f, err := os.Open(p)
		if err != nil {
			continue
		}
		if filepath.Ext(p) == ".json" {
			var c regressCase
			if err := json.NewDecoder(f).Decode(&c); err == nil && c.Prop == prop {
				out = append(out, c)
			}
			f.Close()
			continue
		}
		sc := bufio.NewScanner(f)
		sc.Buffer(make([]byte, 1<<20), 1<<26)
		for sc.Scan() {
			if len(sc.Bytes()) == 0 || sc.Bytes()[0] == '#' {
				continue
			}
			var c regressCase
			if err := json.Unmarshal(sc.Bytes(), &c); err != nil {
				t.Fatalf("bad regression line in %s: %v", p, err)
			}
			if c.Prop == prop {
				out = append(out, c)
			}
		}
		f.Close()
	}
	return out
}

func jsonUnmarshal(b []byte, v any) error { return json.Unmarshal(b, v) }

// fataler is satisfied by *testing.T, *testing.B and *rapid.T.
type fataler interface {
	Fatalf(format string, args ...any)
}

var tasksetPath, _ = exec.LookPath("taskset")

// pinnedCommand runs a helper process with all its threads (and its
// children) on one CPU. In this kind of VM cross-CPU wake-ups between a
// tracer and its tracee, or between the threads of a short-lived process,
// cost two orders of magnitude more than the work itself.
func pinnedCommand(name string, args ...string) *exec.Cmd {
	if tasksetPath == "" {
		return exec.Command(name, args...)
	}
	idx, _ := shard()
	cpu := (idx*7 + os.Getpid()) % runtime.NumCPU()
	return exec.Command(tasksetPath, append([]string{"-c", strconv.Itoa(cpu), name}, args...)...)
}

// yamlUnmarshal decodes with gopkg.in/yaml.v3 (only used to classify inputs).
func yamlUnmarshal(b []byte, v any) (err error) {
	if e := catch(func() { err = yamlv3c.Unmarshal(b, v) }); e != nil {
		return e
	}
	return err
}

// undecidedIfNoInotify stops the run as "undecided" (not as a violation) when an
// auto-refresh cache could not create its watcher because the per-user limit of
// inotify instances (fs.inotify.max_user_instances) is exhausted by other
// processes on the machine. Descriptor-shortage windows created by a test
// itself must not call this.
func undecidedIfNoInotify(t fataler, c *cdi.Cache) {
	for _, e := range c.GetSpecDirErrors() {
		if strings.Contains(e.Error(), "failed to create watcher") {
			t.Fatalf("VERIF-UNDECIDED the environment has no inotify instance left (fs.inotify.max_user_instances exhausted by other processes): %v", e)
		}
	}
}

// waitForInotify waits (up to a minute) until an inotify instance can be
// created, so that a transient exhaustion of fs.inotify.max_user_instances by
// other processes does not turn a run into "undecided".
func waitForInotify() {
	deadline := time.Now().Add(60 * time.Second)
	for {
		fd, err := unix.InotifyInit1(unix.IN_CLOEXEC)
		if err == nil {
			_ = unix.Close(fd)
			return
		}
		if time.Now().After(deadline) {
			return
		}
		time.Sleep(250 * time.Millisecond)
	}
}
