package props

import (
	"fmt"
	"os"
	"path/filepath"
	"sync/atomic"
	"syscall"
	"testing"
	"time"

	"pgregory.net/rapid"
	"tags.cncf.io/container-device-interface/pkg/cdi"
	"tags.cncf.io/container-device-interface/verifharness/obs"
	"tags.cncf.io/container-device-interface/verifharness/stats"
)

// Changes that land *while* NewCache / Configure is scanning (C20: "directory
// changes before, between and after" the option changes; C11: "at every pacing
// relative to the watcher goroutine"; C12: the scan of a constructor against
// the watcher goroutine under the race detector).
//
// The harness owns the schedule: the last file the scan reads in one of the
// directories is a symbolic link to a named pipe outside every configured
// directory, so the scan blocks in open(2) until the harness opens the pipe
// for writing. In that window the harness performs one generated change in a
// configured directory (already scanned, or not yet), then replaces the pipe
// by a regular file with the same content (a rename outside the watched
// directories: no event reaches the cache) and lets the blocked scan go on.
// Afterwards nothing changes any more and the cache must agree with a cache
// freshly built from the final options and directory contents.

type duringGate struct {
	fifo    string
	content []byte
	action  func() // runs while the scan is blocked
	stop    atomic.Bool
	fired   atomic.Bool
	done    chan struct{}
}

func (g *duringGate) run() {
	defer close(g.done)
	for !g.stop.Load() {
		fd, err := syscall.Open(g.fifo, syscall.O_WRONLY|syscall.O_NONBLOCK|syscall.O_CLOEXEC, 0)
		if err != nil { // ENXIO: nobody is reading yet
			time.Sleep(200 * time.Microsecond)
			continue
		}
		// a reader is inside open(2)/read(2) on the pipe now and stays there until we close our end
		g.fired.Store(true)
		g.action()
		tmp := g.fifo + ".tmp"
		_ = os.WriteFile(tmp, g.content, 0o644)
		_ = os.Rename(tmp, g.fifo) // later scans read a regular file with the same content
		_ = syscall.SetNonblock(fd, false)
		_, _ = syscall.Write(fd, g.content)
		_ = syscall.Close(fd)
		return
	}
}

func duringDoc(kind, dev string, marker int) []byte {
	return []byte(fmt.Sprintf(`{"cdiVersion":"0.3.0","kind":"%s","devices":[{"name":"%s","containerEdits":{"env":["M=%d"]}}]}`, kind, dev, marker))
}

func propDuring(rec *stats.Rec, sc *scratch, prop string) func(*rapid.T) {
	marker := 0
	return func(t *rapid.T) {
		root := sc.dir()
		defer os.RemoveAll(root)
		outside := filepath.Join(root, "outside")
		_ = os.MkdirAll(outside, 0o755)
		nDirs := rapid.IntRange(1, 3).Draw(t, "nDirs")
		var dirs []string
		for i := 0; i < nDirs; i++ {
			dirs = append(dirs, filepath.Join(root, fmt.Sprintf("d%d", i)))
		}
		gateDir := rapid.IntRange(0, nDirs-1).Draw(t, "gateDir")
		missingAtStart := map[int]bool{}
		for i, d := range dirs {
			if i != gateDir && rapid.IntRange(0, 3).Draw(t, fmt.Sprintf("d%dMissing", i)) == 0 {
				missingAtStart[i] = true
				continue
			}
			_ = os.MkdirAll(d, 0o755)
			for _, n := range []string{"a.json", "m.yaml"} {
				if rapid.Bool().Draw(t, fmt.Sprintf("d%d%s", i, n)) {
					marker++
					if rapid.IntRange(0, 4).Draw(t, fmt.Sprintf("d%d%sBad", i, n)) == 0 {
						_ = os.WriteFile(filepath.Join(d, n), []byte("{bad"), 0o644) // a file in error from the start (the change may repair it)
						continue
					}
					_ = os.WriteFile(filepath.Join(d, n), duringDoc(rapid.SampledFrom([]string{"v1.com/gpu", "v2.org/gpu"}).Draw(t, "kind"), rapid.SampledFrom([]string{"a", "b"}).Draw(t, "dev"), marker), 0o644)
				}
			}
		}
		// the gate: the last name of its directory in scan order
		fifo := filepath.Join(outside, "pipe")
		if err := syscall.Mkfifo(fifo, 0o644); err != nil {
			t.Fatalf("VERIF-HARNESS mkfifo: %v", err)
		}
		if err := os.Symlink(fifo, filepath.Join(dirs[gateDir], "zz.json")); err != nil {
			t.Fatalf("VERIF-HARNESS symlink: %v", err)
		}
		marker++
		gateContent := duringDoc("v3.net/gate", "g", marker)

		// the change made inside the window
		target := rapid.IntRange(0, nDirs-1).Draw(t, "targetDir")
		kind := rapid.SampledFrom([]string{"create", "create", "rewrite", "remove", "moveIn", "replaceByRename", "removeDir", "mkdirAndFile", "renameDirAway"}).Draw(t, "change")
		if missingAtStart[target] {
			kind = "mkdirAndFile"
		} else if kind == "mkdirAndFile" {
			kind = "create"
		}
		if target == gateDir && (kind == "removeDir" || kind == "renameDirAway") {
			kind = "rewrite" // the gate's own directory stays (the blocked scan is inside it)
		}
		name := rapid.SampledFrom([]string{"a.json", "m.yaml", "n.json"}).Draw(t, "changeName")
		marker++
		newDoc := duringDoc(rapid.SampledFrom([]string{"v1.com/gpu", "v2.org/gpu"}).Draw(t, "newKind"), rapid.SampledFrom([]string{"a", "b", "c"}).Draw(t, "newDev"), marker)
		if rapid.IntRange(0, 3).Draw(t, "newContentUnparsable") == 0 {
			newDoc = []byte("{bad") // the file becomes (or is created as) a file in error
		}
		p := filepath.Join(dirs[target], name)
		_, statErr := os.Lstat(p)
		effective := kind != "remove" || statErr == nil
		change := func() {
			switch kind {
			case "create", "rewrite":
				_ = os.WriteFile(p, newDoc, 0o644)
			case "remove":
				_ = os.Remove(p)
			case "moveIn", "replaceByRename":
				src := filepath.Join(outside, "src")
				if kind == "replaceByRename" {
					src = filepath.Join(dirs[target], ".tmp-x")
				}
				_ = os.WriteFile(src, newDoc, 0o644)
				_ = os.Rename(src, p)
			case "removeDir":
				_ = os.RemoveAll(dirs[target])
			case "renameDirAway":
				_ = os.Rename(dirs[target], filepath.Join(root, "away"))
			case "mkdirAndFile":
				_ = os.MkdirAll(dirs[target], 0o755)
				_ = os.WriteFile(p, newDoc, 0o644)
			}
		}

		// how the scan is started
		// "query after the directory appeared": the cache exists already (auto-refresh) while the gate directory is
		// still missing; the directory is renamed into place and the next query adds the watch and rescans
		how := rapid.SampledFrom([]string{"NewCache", "Configure(dirs)", "Configure(dirs) from auto", "query after the directory appeared"}).Draw(t, "how")
		waitForInotify()
		var cache *cdi.Cache
		other := filepath.Join(root, "other")
		_ = os.MkdirAll(other, 0o755)
		switch how {
		case "Configure(dirs)":
			cache, _ = cdi.NewCache(cdi.WithSpecDirs(other), cdi.WithAutoRefresh(false))
		case "Configure(dirs) from auto":
			cache, _ = cdi.NewCache(cdi.WithSpecDirs(other), cdi.WithAutoRefresh(true))
		case "query after the directory appeared":
			staging := filepath.Join(root, "staging")
			if err := os.Rename(dirs[gateDir], staging); err != nil {
				t.Fatalf("VERIF-HARNESS %v", err)
			}
			cache, _ = cdi.NewCache(cdi.WithSpecDirs(dirs...), cdi.WithAutoRefresh(true))
			_ = cache.ListDevices()
			if target == gateDir && kind != "mkdirAndFile" {
				// the change goes into the directory that is about to appear: make it before, it is then simply content
				change()
				change = func() {}
			}
			if err := os.Rename(staging, dirs[gateDir]); err != nil {
				t.Fatalf("VERIF-HARNESS %v", err)
			}
		}
		g := &duringGate{fifo: fifo, content: gateContent, action: change, done: make(chan struct{})}
		go g.run()
		finished := make(chan struct{})
		go func() {
			defer close(finished)
			switch how {
			case "NewCache":
				cache, _ = cdi.NewCache(cdi.WithSpecDirs(dirs...), cdi.WithAutoRefresh(true))
			case "query after the directory appeared":
				_ = cache.ListDevices()
			default:
				_ = cache.Configure(cdi.WithSpecDirs(dirs...), cdi.WithAutoRefresh(true))
			}
		}()
		select {
		case <-finished:
		case <-time.After(60 * time.Second):
			g.stop.Store(true)
			t.Fatalf("%s violated: %s over %v did not return within 60 s although the pipe it reads was served (fired=%v)", prop, how, dirs, g.fired.Load())
		}
		g.stop.Store(true)
		<-g.done
		defer func() { _ = cache.Configure(cdi.WithAutoRefresh(false)) }()
		undecidedIfNoInotify(t, cache)
		if !g.fired.Load() {
			t.Fatalf("VERIF-HARNESS the scan of %s never opened the gate file", how)
		}
		m := c20Model{dirs: dirs, auto: true}
		ok, got, want := agree(func() string { return obs.FullView(cache) }, m, 10*time.Second)
		desc := map[string]any{"how": how, "dirs": nDirs, "gateDir": gateDir, "targetDir": target, "change": kind, "name": name, "missingAtStart": len(missingAtStart)}
		if !ok {
			t.Fatalf("%s violated: a change made while %s was scanning is not reflected 10 s later (and nothing else changes any more): the cache differs from a new cache over the same directories\ncase: %s\ncache:\n%s\nnew cache:\n%s", prop, how, canonJSON(desc), got, want)
		}
		rel := "same"
		if target < gateDir {
			rel = "already-scanned"
		} else if target > gateDir {
			rel = "not-yet-scanned"
		}
		rec.Case(effective, canonJSON(desc), func() any { return desc }, "how:"+how, "change:"+kind, "target:"+rel)
	}
}

func TestC20During(t *testing.T) {
	rapid.Check(t, propDuring(stats.For("C20", "during"), newScratch(t), "C20"))
}

func TestC12During(t *testing.T) {
	rapid.Check(t, propDuring(stats.For("C12", "during"), newScratch(t), "C12"))
}

func TestC11During(t *testing.T) {
	rapid.Check(t, propDuring(stats.For("C11", "during"), newScratch(t), "C11"))
}

func TestC13During(t *testing.T) {
	rapid.Check(t, propDuring(stats.For("C13", "during"), newScratch(t), "C13"))
}
