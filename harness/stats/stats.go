// Package stats records, for every generated case, how the check classified
// it (labels, non-trivial or not, a hash of its canonical form) and keeps a few
// sample cases. One fragment file per (property, test, process) is written at
// process exit; the driver (verify.py) merges fragments into the evidence file.
//
// Nothing in here influences a verdict.
package stats

import (
	"encoding/binary"
	"encoding/json"
	"fmt"
	"hash/fnv"
	"os"
	"path/filepath"
	"sort"
	"sync"
	"time"
)

// HashCap bounds the number of distinct hashes kept per recorder. Distinct
// non-trivial cases beyond the cap are not counted (conservative).
const HashCap = 200000

const maxSamples = 8

// Rec is one recorder.
type Rec struct {
	mu         sync.Mutex
	Prop, Test string
	evals      int64
	nontrivial int64
	labels     map[string]int64
	excluded   map[string]int64
	hashes     map[uint64]struct{}
	capped     bool
	samples    []json.RawMessage
	nextSample int64
	extra      map[string]int64
	start      time.Time
}

var (
	regMu sync.Mutex
	reg   = map[string]*Rec{}
)

// For returns the recorder for (prop, test), creating it on first use.
func For(prop, test string) *Rec {
	regMu.Lock()
	defer regMu.Unlock()
	k := prop + "/" + test
	if r, ok := reg[k]; ok {
		return r
	}
	r := &Rec{Prop: prop, Test: test, labels: map[string]int64{}, excluded: map[string]int64{},
		hashes: map[uint64]struct{}{}, extra: map[string]int64{}, start: time.Now(), nextSample: 1}
	reg[k] = r
	return r
}

// Hash is the 64-bit FNV-1a hash used for canonical forms.
func Hash(s string) uint64 {
	h := fnv.New64a()
	_, _ = h.Write([]byte(s))
	return h.Sum64()
}

// Case records one evaluated case. canon is the canonical form of the case
// (two cases are "the same" iff their canon strings are equal); sample, if not
// nil, is called only when this case is selected as a sample.
func (r *Rec) Case(nontrivial bool, canon string, sample func() any, labels ...string) {
	r.mu.Lock()
	defer r.mu.Unlock()
	r.evals++
	for _, l := range labels {
		r.labels[l]++
	}
	if nontrivial {
		r.nontrivial++
		if len(r.hashes) < HashCap {
			r.hashes[Hash(canon)] = struct{}{}
		} else {
			r.capped = true
		}
	}
	// deterministic sample schedule: non-trivial cases at evaluation
	// indexes >= 1, 4, 16, 64, ... (at most maxSamples)
	if sample != nil && nontrivial && r.evals >= r.nextSample && len(r.samples) < maxSamples {
		r.nextSample = r.evals*4 + 1
		if b, err := json.Marshal(sample()); err == nil {
			if len(b) > 6000 {
				b, _ = json.Marshal(string(b[:6000]) + "...(truncated)")
			}
			r.samples = append(r.samples, b)
		}
	}
}

// Label counts an additional label without counting a case.
func (r *Rec) Label(labels ...string) {
	r.mu.Lock()
	defer r.mu.Unlock()
	for _, l := range labels {
		r.labels[l]++
	}
}

// Excluded counts a generated case that was excluded by construction
// (known finding or stated don't-care).
func (r *Rec) Excluded(reason string) {
	r.mu.Lock()
	defer r.mu.Unlock()
	r.excluded[reason]++
}

// Add adds n to a free-form counter that is copied into the evidence.
func (r *Rec) Add(counter string, n int64) {
	r.mu.Lock()
	defer r.mu.Unlock()
	r.extra[counter] += n
}

type fragment struct {
	Prop       string            `json:"prop"`
	Test       string            `json:"test"`
	Pid        int               `json:"pid"`
	Evals      int64             `json:"evaluations"`
	Nontrivial int64             `json:"nontrivial"`
	Distinct   int               `json:"distinct_in_fragment"`
	Capped     bool              `json:"hash_cap_reached"`
	Labels     map[string]int64  `json:"labels"`
	Excluded   map[string]int64  `json:"excluded"`
	Extra      map[string]int64  `json:"extra"`
	Samples    []json.RawMessage `json:"samples"`
	WallS      float64           `json:"wall_s"`
	HashFile   string            `json:"hash_file"`
}

// FlushAll writes every recorder to $VERIF_FRAG_DIR (if set).
func FlushAll() {
	dir := os.Getenv("VERIF_FRAG_DIR")
	if dir == "" {
		return
	}
	_ = os.MkdirAll(dir, 0o755)
	regMu.Lock()
	defer regMu.Unlock()
	keys := make([]string, 0, len(reg))
	for k := range reg {
		keys = append(keys, k)
	}
	sort.Strings(keys)
	for _, k := range keys {
		r := reg[k]
		r.mu.Lock()
		base := fmt.Sprintf("%s.%s.%d", r.Prop, r.Test, os.Getpid())
		hf := filepath.Join(dir, base+".hashes")
		buf := make([]byte, 0, 8*len(r.hashes))
		for h := range r.hashes {
			buf = binary.LittleEndian.AppendUint64(buf, h)
		}
		_ = os.WriteFile(hf, buf, 0o644)
		f := fragment{Prop: r.Prop, Test: r.Test, Pid: os.Getpid(), Evals: r.evals, Nontrivial: r.nontrivial,
			Distinct: len(r.hashes), Capped: r.capped, Labels: r.labels, Excluded: r.excluded, Extra: r.extra,
			Samples: r.samples, WallS: time.Since(r.start).Seconds(), HashFile: hf}
		b, _ := json.MarshalIndent(f, "", " ")
		_ = os.WriteFile(filepath.Join(dir, base+".frag.json"), b, 0o644)
		r.mu.Unlock()
	}
}
