import json, warnings
warnings.filterwarnings("ignore")
from jsonschema import Draft7Validator, RefResolver
base='/repo/schema/'
schema=json.load(open(base+'schema.json'))
v=Draft7Validator(schema, resolver=RefResolver(base_uri='file://'+base, referrer=schema))
n=0; dis=0; valid=0; shown=0
for line in open('/tmp/scratch/docs.jsonl'):
    r=json.loads(line)
    try:
        doc=json.loads(r['doc'])
    except Exception as e:
        print("py cannot parse", r['doc'][:100], e); continue
    pv = v.is_valid(doc)
    n+=1; valid+=pv
    if pv != r['valid']:
        dis+=1
        if shown<10:
            shown+=1
            print("DISAGREE go=%s py=%s"%(r['valid'],pv), r['doc'][:400], [e.message[:80] for e in v.iter_errors(doc)][:3])
print(n, "docs", valid, "valid", dis, "disagreements")
