#!/usr/bin/env python3
"""Sensitivity self-test: applies each mutant patch from /verif/mutants (or the
given ones) to a scratch worktree of /repo outside /repo and /verif, runs the
designated quick check(s) against it (VERIF_REPO=<copy>) and expects exit 1
with a VIOLATION line. The worktree and its build output are removed afterwards.

A mutant file is a unified diff with header lines
    # property: C06[,C05]      checks expected to fail
    # suite: pass              (optional) the repository's own tests must still pass with it
usage: verify.py selftest [--suite] [--tier quick] [mutants/x.diff ...]
"""
import hashlib, glob, os, re, shutil, subprocess, sys, time

ROOT = os.path.dirname(os.path.abspath(__file__))


def sh(cmd, **kw):
    return subprocess.run(cmd, stdout=subprocess.PIPE, stderr=subprocess.STDOUT, text=True, **kw)


def run_one(path, suite, tier):
    txt = open(path).read()
    m = re.search(r"^# property: *(\S+)", txt, re.M)
    props = m.group(1).split(",") if m else []
    wt = "/tmp/vsel-%d-%s" % (os.getpid(), re.sub(r"\W", "_", os.path.basename(path)))
    sh(["git", "-C", "/repo", "worktree", "remove", "--force", wt])
    r = sh(["git", "-C", "/repo", "worktree", "add", "--detach", wt, "HEAD"])
    if r.returncode != 0:
        return [(path, "?", "worktree failed: " + r.stdout)]
    results = []
    try:
        r = sh(["git", "-C", wt, "apply", "--whitespace=nowarn", path])
        if r.returncode != 0:
            return [(path, "?", "patch does not apply: " + r.stdout.strip())]
        env = dict(os.environ, GOFLAGS="-mod=mod", GOPROXY="off", GOSUMDB="off", GOTOOLCHAIN="local")
        if suite:
            for mod in [".", "schema", "cmd/cdi", "cmd/validate"]:
                r = sh(["go", "test", "-vet=off", "-count=1", "./..."], cwd=os.path.join(wt, mod), env=env)
                if r.returncode != 0:
                    results.append((path, "suite", "repository tests FAIL with the mutant (not a valid mutant): " + r.stdout[-500:]))
                    return results
        for p in props:
            t0 = time.time()
            env2 = dict(env, VERIF_REPO=wt)
            r = sh([sys.executable, os.path.join(ROOT, "verify.py"), "check", p, "--tier", tier], env=env2, cwd=ROOT)
            viol = [l for l in r.stdout.splitlines() if l.startswith("VIOLATION")]
            status = "CAUGHT" if (r.returncode == 1 and viol) else ("MISSED rc=%d" % r.returncode)
            detail = viol[0] if viol else r.stdout.strip().splitlines()[-1:] 
            results.append((path, p, "%s in %.0fs  %s" % (status, time.time() - t0, detail)))
    finally:
        sh(["git", "-C", "/repo", "worktree", "remove", "--force", wt])
        shutil.rmtree(wt, ignore_errors=True)
        tag = hashlib.sha1(wt.encode()).hexdigest()
        for d in glob.glob(os.path.join(ROOT, ".build", "alt-%s-*" % tag[:8])) + glob.glob(os.path.join(ROOT, ".build", "mod-%s" % tag[:10])):
            shutil.rmtree(d, ignore_errors=True)
    return results


def main(argv):
    suite = False
    tier = "quick"
    paths = []
    while argv:
        a = argv.pop(0)
        if a == "--suite":
            suite = True
        elif a == "--tier":
            tier = argv.pop(0)
        else:
            paths.append(a)
    if not paths:
        paths = sorted(glob.glob(os.path.join(ROOT, "mutants", "*.diff")))
    bad = 0
    for p in paths:
        for (path, prop, msg) in run_one(os.path.abspath(p), suite, tier):
            print("%-40s %-4s %s" % (os.path.basename(path), prop, msg), flush=True)
            if "CAUGHT" not in msg:
                bad += 1
    return 1 if bad else 0


if __name__ == "__main__":
    sys.exit(main(sys.argv[1:]))
