#!/usr/bin/env python3
"""c17_jsonschema.py <schema dir> <dump.jsonl>
Independent judge for the C17 reference model: validates every document of the dump with
python jsonschema's Draft7Validator against <schema dir>/schema.json (defs.json resolved from
the same directory) and prints one JSON line {"n":..,"disagreements":[...]} comparing with the
Go model's verdict stored in each line ({"doc":..., "valid": bool}). Numbers are parsed exactly
(int / Decimal)."""
import json, sys, os, decimal
import jsonschema

d, dump = sys.argv[1], sys.argv[2]
class Imprecise(Exception):
    pass

def pf(s):
    """exact integers stay exact (1.0 and 1e2 are integers for draft-07); other numbers become floats,
    unless the float would turn a non-integral number into an integral one (then the document is skipped)"""
    d = decimal.Decimal(s)
    if d == d.to_integral_value():
        return int(d)
    f = float(s)
    if f.is_integer():
        raise Imprecise(s)
    return f

def load(p):
    return json.load(open(p), parse_float=pf)
schema = load(os.path.join(d, "schema.json"))
store = {}
for f in os.listdir(d):
    if f.endswith(".json"):
        store["file://" + os.path.join(d, f)] = load(os.path.join(d, f))
base = "file://" + os.path.join(d, "schema.json")
resolver = jsonschema.RefResolver(base_uri=base, referrer=schema, store=store)
v = jsonschema.Draft7Validator(schema, resolver=resolver)
n, dis, skipped = 0, [], 0
for line in open(dump):
    try:
        rec = json.loads(line, parse_float=pf)
    except Imprecise:
        skipped += 1
        continue
    n += 1
    ok = v.is_valid(rec["doc"])
    if ok != rec["valid"]:
        dis.append({"index": n, "python": ok, "model": rec["valid"], "doc": json.dumps(rec["doc"], default=str)[:600]})
print(json.dumps({"n": n, "skipped_float_precision": skipped, "disagreements": dis[:20], "count": len(dis)}))
