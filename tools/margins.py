#!/usr/bin/env python3
"""margins.py [evidence dir]: health-threshold margins (labels seen / minimum required) per property, smallest first."""
import json, os, sys
sys.path.insert(0, os.path.dirname(os.path.dirname(os.path.abspath(__file__))))
import checks
d = sys.argv[1] if len(sys.argv) > 1 else os.path.join(os.path.dirname(os.path.dirname(os.path.abspath(__file__))), "evidence")
rows = []
for p, spec in sorted(checks.PROPS.items()):
    f = os.path.join(d, p + ".json")
    if not os.path.exists(f):
        continue
    e = json.load(open(f))
    tier = e.get("tier", "quick")
    h = spec.get("health", {}).get(tier) or {}
    labels = e["coverage"].get("labels", {})
    for lab, m in h.items():
        rows.append((labels.get(lab, 0) / m, p, lab, labels.get(lab, 0), m))
for r in sorted(rows)[:25]:
    print("%5.2f %s %-50s %6d / %d" % r)
