#!/usr/bin/env python3
"""Regenerates /verif/MANIFEST.json from checks.py (single source of truth) and
validates it, and every evidence file present, against the schemas."""
import json, os, sys
ROOT = os.path.dirname(os.path.dirname(os.path.abspath(__file__)))
sys.path.insert(0, ROOT)
import checks

ALL = ["C%02d" % i for i in range(1, 21)]
claimed = [p for p in ALL if p in checks.PROPS and checks.PROPS[p].get("claimed", True)]
m = {
    "version": 1,
    "setup_cmd": "python3 verify.py setup",
    "hooks": {
        "guard": "verif",
        "enable": "no source hooks are needed: faults and crash points are injected at the system-call boundary "
                  "(strace, rlimits, permissions, signals); checks build /repo as it is (go build tag 'verif' is reserved and unused)",
        "baseline_off_cmd": "for m in . specs-go schema cmd/cdi cmd/validate; do (cd /repo/$m && GOFLAGS=-mod=mod go test -vet=off -count=1 -timeout 25m ./...) || exit 1; done",
        "source_commits": [],
        "add_only": True,
    },
    "engines": [{
        "name": "verify.py + harness/props", "path": "verify.py", "serves_properties": claimed,
        "kind_free_text": "property-based testing (pgregory.net/rapid v1.3.0: stateless properties and t.Repeat state machines), "
                          "bounded exhaustive enumeration, native go fuzzing with the oracle inside the target, generated fault / crash-point "
                          "enumeration at the system-call boundary; explicit reference models in harness/model",
    }],
    "checks": [],
    "not_applicable": [],
    "notes": "Every check is `python3 verify.py check <ID> --tier quick|thorough`; it rebuilds the harness against /repo's working tree, "
             "shards rapid over 16 processes with seeds derived from VERIF_SEED, and writes evidence/<ID>.json from counters measured in the run. "
             "known_findings.jsonl lists repaired defects (status fixed) and, if any, recorded ones (status known). See DESIGN.md.",
}
for p in ALL:
    if p in claimed:
        s = checks.PROPS[p]
        mf = s["manifest"]
        m["checks"].append({
            "property_id": p,
            "quick_cmd": "python3 verify.py check %s --tier quick" % p,
            "thorough_cmd": "python3 verify.py check %s --tier thorough" % p,
            "evidence_file": "evidence/%s.json" % p,
            "replay_cmd_template": "python3 verify.py replay %s {path}" % p,
            "engine": "verify.py + harness/props",
            "level_claimed": {"category": s["level"], "text": mf["text"], "design_ref": "DESIGN.md section 3, " + p},
            "level_note": mf["note"],
            "technique": mf["technique"],
        })
    else:
        reason = checks.NOT_APPLICABLE.get(p, "check not built yet (work in progress; the design in DESIGN.md applies property-based testing to it)")
        m["not_applicable"].append({"property_id": p, "reason": reason})
json.dump(m, open(os.path.join(ROOT, "MANIFEST.json"), "w"), indent=1)
print("MANIFEST.json: %d checks, %d not_applicable" % (len(m["checks"]), len(m["not_applicable"])))
try:
    import jsonschema
    jsonschema.validate(m, json.load(open("/root/.vp/MANIFEST.schema.json")))
    es = json.load(open("/root/.vp/EVIDENCE.schema.json"))
    for p in claimed:
        f = os.path.join(ROOT, "evidence", p + ".json")
        if os.path.exists(f):
            jsonschema.validate(json.load(open(f)), es)
        else:
            print("  (no evidence file yet for %s)" % p)
    print("schemas ok")
except ImportError:
    print("jsonschema not importable with this python; run with python3-vt to validate")
