#!/usr/bin/env python3
"""mkmut.py <name> <props> <description> <file> <old> <new> [<file> <old> <new> ...]
Creates /verif/mutants/<name>.diff by replacing text in a scratch worktree of /repo (/tmp/mut)."""
import os, subprocess, sys
name, props, desc = sys.argv[1:4]
rest = sys.argv[4:]
wt = "/tmp/mut"
if not os.path.isdir(wt):
    subprocess.check_call(["git", "-C", "/repo", "worktree", "add", "--detach", wt, "HEAD"], stdout=subprocess.DEVNULL)
subprocess.check_call(["git", "-C", wt, "checkout", "-q", "--detach", subprocess.check_output(["git", "-C", "/repo", "rev-parse", "HEAD"], text=True).strip()])
subprocess.check_call(["git", "-C", wt, "checkout", "-q", "."])
for i in range(0, len(rest), 3):
    f, old, new = rest[i:i + 3]
    p = os.path.join(wt, f)
    s = open(p).read()
    if s.count(old) != 1:
        sys.exit("pattern occurs %d times in %s: %r" % (s.count(old), f, old))
    open(p, "w").write(s.replace(old, new))
env = dict(os.environ, GOFLAGS="-mod=mod", GOPROXY="off", GOSUMDB="off", GOTOOLCHAIN="local")
r = subprocess.run(["go", "build", "./..."], cwd=wt, env=env, stdout=subprocess.PIPE, stderr=subprocess.STDOUT, text=True)
if r.returncode != 0:
    subprocess.check_call(["git", "-C", wt, "checkout", "-q", "."])
    sys.exit("mutant does not compile:\n" + r.stdout)
diff = subprocess.check_output(["git", "-C", wt, "diff"], text=True)
subprocess.check_call(["git", "-C", wt, "checkout", "-q", "."])
out = os.path.join(os.path.dirname(os.path.dirname(os.path.abspath(__file__))), "mutants", name + ".diff")
open(out, "w").write("# property: %s\n# %s\n%s" % (props, desc, diff))
print("wrote", out)
