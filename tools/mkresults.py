#!/usr/bin/env python3
"""Collects self-test logs (lines '<mutant>.diff  <prop>  CAUGHT|MISSED ...') and seeded/*/meta.json
into mutants/RESULTS.md and seeded/RESULTS.md."""
import glob, json, os, re, sys
ROOT = os.path.dirname(os.path.dirname(os.path.abspath(__file__)))
res = {}
for f in sys.argv[1:]:
    for l in open(f, errors="replace"):
        m = re.match(r"(\S+\.diff)\s+(C\d+|\?|suite)\s+(CAUGHT|MISSED|patch does not apply|repository tests FAIL)(.*)", l)
        if m:
            res[(m.group(1), m.group(2))] = (m.group(3), m.group(4).strip())
def desc(name):
    p = os.path.join(ROOT, "mutants", name)
    if not os.path.exists(p):
        return "(removed)"
    for l in open(p):
        if l.startswith("# ") and not l.startswith("# property") and not l.startswith("# suite"):
            return l[2:].strip()
    return ""
out = ["# Sensitivity self-test results", "",
       "Each mutant is a patch to /repo applied to a scratch worktree; the named property's *quick* check is run against it",
       "(`python3 verify.py selftest mutants/<name>.diff`). CAUGHT = exit 1 with a VIOLATION line.", "",
       "| mutant | property | result | what the mutant does |", "|---|---|---|---|"]
for (name, prop), (verdict, rest) in sorted(res.items()):
    t = re.search(r"in (\d+)s", rest)
    out.append("| %s | %s | %s%s | %s |" % (name[:-5], prop, verdict, (" (%ss)" % t.group(1)) if t else "", desc(name)))
if len(sys.argv) > 1:  # without logs the mutant table is left as it is
    open(os.path.join(ROOT, "mutants", "RESULTS.md"), "w").write("\n".join(out) + "\n")
print("mutants:", len(res), "rows;", sum(1 for v in res.values() if v[0] == "CAUGHT"), "caught")
rows = ["# Seeded changes written by independent sub-agents", "",
        "Each directory holds the agent's patch, its demonstration and meta.json (what was run to confirm it and the verdict of the check).", "",
        "| seed | breaks | confirmed (demo passes without / fails with the change, suites pass) | check verdict | needs to manifest |", "|---|---|---|---|---|"]
for d in sorted(glob.glob(os.path.join(ROOT, "seeded", "C*"))):
    mp = os.path.join(d, "meta.json")
    if not os.path.exists(mp):
        continue
    m = json.load(open(mp))
    st = m.get("steps", {})
    conf = "yes" if st.get("demo_without_change") == "pass" and str(st.get("demo_with_change", "")).startswith("fails") and st.get("existing_suites_pass_with_change") is True else "NO: %s" % json.dumps(st)[:120]
    ver = "; ".join("%s %s (%ss)%s" % (p, c["verdict"], c["seconds"], (", before strengthening: " + c["verdict_of_the_check_before_strengthening"]["verdict"]) if "verdict_of_the_check_before_strengthening" in c else "") for p, c in m.get("check", {}).items())
    if m.get("history"):
        ver += " - " + m["history"]
    rows.append("| %s | %s | %s | %s | %s |" % (os.path.basename(d), m.get("breaks"), conf, ver, m.get("needs_to_manifest_summary", m.get("needs_to_manifest", ""))))
open(os.path.join(ROOT, "seeded", "RESULTS.md"), "w").write("\n".join(rows) + "\n")
print("seeded:", len(rows) - 6)
