#!/usr/bin/env python3
"""mkseedprompts.py <round> <outdir>
Writes one prompt per property for the independent sub-agents that plant seeded changes (DESIGN.md section 12c).
A prompt contains only: the property text, the worktree path /tmp/seed<round>-<ID>, the summaries of ideas already
tried for that property (earlier seeds and the descriptions of the hand-written mutants), and the delivery format.
Nothing of /verif's checks is given to the agent."""
import glob, json, os, re, sys
ROOT = os.path.dirname(os.path.dirname(os.path.abspath(__file__)))
START = {"C07": "pkg/parser/parser.go", "C17": "schema/schema.go", "C18": "schema/schema.go, pkg/cdi/spec.go", "C19": "cmd/cdi/cmd, cmd/validate"}

def main():
    rnd, out = sys.argv[1], sys.argv[2]
    os.makedirs(out, exist_ok=True)
    for line in open(os.path.join(ROOT, "properties.jsonl")):
        p = json.loads(line)
        pid = p["id"]
        ideas = []
        for m in sorted(glob.glob(os.path.join(ROOT, "seeded", pid + "-*", "meta.json"))):
            d = json.load(open(m))
            s = d.get("needs_to_manifest_summary") or d.get("needs_to_manifest")
            if s and not s.startswith("see "):
                ideas.append(s)
        for m in sorted(glob.glob(os.path.join(ROOT, "mutants", "*.diff"))):
            head = open(m).read().split("\ndiff ", 1)[0].splitlines()
            if not head or pid not in head[0]:
                continue
            for h in head[1:]:
                h = h.lstrip("# ").strip()
                if h and not h.startswith("suite:") and not h.startswith("property"):
                    ideas.append(h)
        wt = "/tmp/seed%s-%s" % (rnd, pid)
        files = START.get(pid) or ", ".join(p["anchors"]["files"][:3])
        txt = f"""You are helping to evaluate a verification tool. Your job is to plant ONE realistic, SUBTLE bug in a Go code base.

The code base is a git worktree of the project "container-device-interface" (the CDI reference library and CLI) at {wt} . Work ONLY inside {wt} . Never touch /repo or /verif and do not read anything under /verif. NEVER use `git stash` (the stash is shared between worktrees).

The semantic property you must break:

  Title: {p['title']}
  Statement: {p['statement']}
  It is meant to hold: {p['quantifier']['text']}

Ideas that were ALREADY TRIED by others (earlier rounds) - do not repeat them or trivial variants of them. Find a DIFFERENT way to break the property, preferably in a part of the statement, an entry point, a code path or an input region that none of these touches:
""" + "".join("   - %s\n" % i for i in ideas) + f"""Also do not simply re-introduce a bug that one of the recent "fix:" commits in `git log` repaired.

Task:
1. Read the relevant code in {wt} (start with: {files}).
2. Make a small source change to the library / CLI code (NOT to its tests) that makes the property false, while
   - everything still compiles, and
   - the project's existing test suites still pass: run them ONCE with
       export GOFLAGS=-mod=mod GOPROXY=off GOSUMDB=off GOTOOLCHAIN=local
       (cd {wt} && go test -count=1 ./...) ; (cd {wt}/schema && go test -count=1 ./...) ; (cd {wt}/cmd/cdi && go build ./...) ; (cd {wt}/cmd/validate && go build ./...)
     (no network; those settings make Go work offline). Do NOT run pkg/cdi's tests with -count larger than 2 and do not run long stress loops: those tests create inotify watchers and the machine-wide limit is 128 instances, which other people on this machine need. pkg/cdi's own TestDefaultCacheRefresh is timing-sensitive and may fail once on a busy machine with or without your change; re-run it once before concluding anything.
   The change should look like something a developer could plausibly write (an off-by-one, a forgotten case, a wrong operator, a missing lock, a stale cache, a reordered statement, an "optimisation", a refactoring that is almost equivalent...), and it must need something SPECIFIC to manifest: a particular interleaving, a crash or fault at a particular point, a multi-step sequence of operations, an unusual input, a particular position in a list, or two cooperating sites that each look fine alone. Do NOT make a change that any ordinary use of the library would expose at once. The subtler the better, as long as the property statement is really violated.
3. Write a demonstration: a Go test file (or small Go program) that FAILS with your change and PASSES on the unchanged code. Put it where it can run inside the worktree (for example a new file pkg/cdi/seeded_demo_test.go). Name the test functions TestSeeded... Verify both directions yourself: run it with your change (must fail); then take your source change out with `git diff -- <your source files> > /tmp/my-change-{pid}-r{rnd}.patch; git apply -R /tmp/my-change-{pid}-r{rnd}.patch`, run the demo again (must pass), then `git apply /tmp/my-change-{pid}-r{rnd}.patch` to put the change back.
4. Leave these files in {wt}/seed/ :
   - patch.diff : output of `git diff` for the SOURCE change only (not the demo file),
   - the demonstration file (copy; do not add a go.mod there, it is fine if `go test ./...` then complains about that directory),
   - README.md : which clause of the property it breaks, what exactly is needed for the bug to manifest, and the exact commands you used to run the demonstration and their results with and without the change.
   Leave the source change applied in the worktree.

Keep the change minimal (a few lines). Finish with a short summary of the change and what triggers it.
"""
        open(os.path.join(out, pid + ".txt"), "w").write(txt)
    print("wrote", out)

if __name__ == "__main__":
    main()
