#!/usr/bin/env python3
"""seedeval.py <PROP> [<seed dir>]
Confirms a seeded change written by a sub-agent and runs the property's check against it.
 1. fresh scratch worktree of /repo HEAD (outside /repo and /verif);
 2. demonstration passes without the patch;
 3. patch applies; everything builds; the repository's own suites pass;
 4. demonstration fails with the patch;
 5. `verify.py check <PROP>` against the patched tree (VERIF_REPO) - expected: exit 1 + VIOLATION.
Stores patch.diff, the demonstration and meta.json under /verif/seeded/<PROP>-<n>/ and removes the worktree."""
import glob, json, os, re, shutil, subprocess, sys, time
ROOT = os.path.dirname(os.path.dirname(os.path.abspath(__file__)))
ENV = dict(os.environ, GOFLAGS="-mod=mod", GOPROXY="off", GOSUMDB="off", GOTOOLCHAIN="local")

def sh(cmd, cwd=None, env=None, timeout=3600):
    p = subprocess.run(cmd, cwd=cwd, env=env or ENV, stdout=subprocess.PIPE, stderr=subprocess.STDOUT, text=True, shell=isinstance(cmd, str), timeout=timeout)
    return p.returncode, p.stdout

def drop_build_output(tree):
    """removes what verify.py built for a scratch tree (one output directory per tree and property)."""
    import hashlib
    tag = hashlib.sha1(tree.encode()).hexdigest()
    for d in glob.glob(os.path.join(ROOT, ".build", "alt-%s-*" % tag[:8])) + glob.glob(os.path.join(ROOT, ".build", "mod-%s" % tag[:10])):
        shutil.rmtree(d, ignore_errors=True)


def main():
    prop = sys.argv[1]
    src_wt = "/tmp/seed-" + prop
    seed = sys.argv[2] if len(sys.argv) > 2 else os.path.join(src_wt, "seed")
    src_wt = os.path.dirname(os.path.abspath(seed))
    tier = os.environ.get("SEED_TIER", "quick")
    patch = os.path.join(seed, "patch.diff")
    demos = [f for f in glob.glob(os.path.join(seed, "*.go")) if os.path.isfile(f)]
    assert os.path.exists(patch) and demos, "seed directory incomplete: %s" % seed
    wt = "/tmp/sev-%s-%d" % (prop, os.getpid())
    sh(["git", "-C", "/repo", "worktree", "remove", "--force", wt])
    rc, out = sh(["git", "-C", "/repo", "worktree", "add", "--detach", wt, "HEAD"])
    assert rc == 0, out
    meta = {"property": prop, "steps": {}}
    try:
        # where does the demonstration live in the agent's worktree?
        placed = []
        for d in demos:
            name = os.path.basename(d)
            cands = [p for p in glob.glob(os.path.join(src_wt, "**", name), recursive=True) if "/seed/" not in p]
            rel = os.path.relpath(cands[0], src_wt) if cands else os.path.join("pkg/cdi", name)
            os.makedirs(os.path.dirname(os.path.join(wt, rel)), exist_ok=True)
            shutil.copyfile(d, os.path.join(wt, rel))
            placed.append(rel)
        meta["demonstration_files"] = placed
        def run_demo():
            res = []
            for rel in placed:
                d = os.path.dirname(rel)
                mod = wt
                for m in ("schema", "cmd/cdi", "cmd/validate", "specs-go"):
                    if rel.startswith(m + "/"):
                        mod, d = os.path.join(wt, m), os.path.dirname(rel)[len(m):].lstrip("/")
                if rel.endswith("_test.go"):
                    rc, out = sh(["go", "test", "-count=1", "-run", "Seed|seed|Demo|demo", "./" + (d or ".")], cwd=mod, timeout=1200)
                    if "no tests to run" in out:
                        rc, out = sh(["go", "test", "-count=1", "./" + (d or ".")], cwd=mod, timeout=1200)
                else:
                    rc, out = sh(["go", "run", "./" + (d or ".")], cwd=mod, timeout=1200)
                res.append((rc, out[-1500:]))
            return res
        r0 = run_demo()
        meta["steps"]["demo_without_change"] = "pass" if all(rc == 0 for rc, _ in r0) else "FAIL: " + r0[0][1][-600:]
        rc, out = sh(["git", "-C", wt, "apply", "--whitespace=nowarn", patch])
        meta["steps"]["patch_applies"] = rc == 0 or out
        builds = True
        suite = []
        for mod in (".", "schema", "cmd/cdi", "cmd/validate"):
            rc, out = sh(["go", "build", "./..."], cwd=os.path.join(wt, mod))
            builds = builds and rc == 0
        meta["steps"]["builds"] = builds
        # the repository's own suites (without the demonstration files)
        for rel in placed:
            os.rename(os.path.join(wt, rel), os.path.join(wt, rel) + ".off")
        ok = True
        for mod in (".", "schema"):
            # pkg/cdi's own TestDefaultCacheRefresh sleeps 10 ms and then expects the watcher to have caught up:
            # on a loaded machine it fails now and then, with or without any change; retry before blaming the seed
            for attempt in range(3):
                rc, out = sh(["go", "test", "-vet=off", "-count=1", "./..."], cwd=os.path.join(wt, mod), timeout=1800)
                if rc == 0:
                    break
                meta["steps"].setdefault("suite_retries", []).append(out[-300:])
            if rc != 0:
                ok = False
                suite.append(out[-800:])
        for rel in placed:
            os.rename(os.path.join(wt, rel) + ".off", os.path.join(wt, rel))
        meta["steps"]["existing_suites_pass_with_change"] = ok or suite
        r1 = run_demo()
        meta["steps"]["demo_with_change"] = "fails (as required)" if any(rc != 0 for rc, _ in r1) else "PASSES - change not demonstrated"
        meta["demo_failure_excerpt"] = next((o[-700:] for rc, o in r1 if rc != 0), "")
        # my check against the patched tree (demonstration files removed: they are not part of the change)
        for rel in placed:
            os.remove(os.path.join(wt, rel))
        t0 = time.time()
        props = [prop] + [p for p in os.environ.get("SEED_ALSO", "").split(",") if p]
        meta["check"] = {}
        for p in props:
            rc, out = sh([sys.executable, os.path.join(ROOT, "verify.py"), "check", p, "--tier", tier], cwd=ROOT, env=dict(ENV, VERIF_REPO=wt), timeout=7200)
            viol = [l for l in out.splitlines() if l.startswith("VIOLATION")]
            meta["check"][p] = {"cmd": "VERIF_REPO=<patched tree> python3 verify.py check %s --tier %s" % (p, tier), "exit": rc,
                                "verdict": "CAUGHT" if rc == 1 and viol else "MISSED", "first_violation_line": viol[0] if viol else "",
                                "seconds": round(time.time() - t0)}
            oldc = os.environ.get("SEED_VERIF_OLD")
            if oldc:
                # the same check as it was at an earlier commit of /verif (before it was strengthened in response to seeds)
                ow = "/tmp/verif-old-%d" % os.getpid()
                sh(["git", "-C", ROOT, "worktree", "remove", "--force", ow])
                sh(["git", "-C", ROOT, "worktree", "add", "--detach", ow, oldc])
                rc2, out2 = sh([sys.executable, os.path.join(ow, "verify.py"), "check", p, "--tier", tier], cwd=ow, env=dict(ENV, VERIF_REPO=wt), timeout=7200)
                viol2 = [l for l in out2.splitlines() if l.startswith("VIOLATION")]
                meta["check"][p]["verdict_of_the_check_before_strengthening"] = {"verif_commit": oldc, "exit": rc2, "verdict": "CAUGHT" if rc2 == 1 and viol2 else "MISSED"}
                sh(["git", "-C", ROOT, "worktree", "remove", "--force", ow])
                shutil.rmtree(ow, ignore_errors=True)
    finally:
        sh(["git", "-C", "/repo", "worktree", "remove", "--force", wt])
        shutil.rmtree(wt, ignore_errors=True)
        drop_build_output(wt)
    readme = os.path.join(seed, "README.md")
    n = int(os.environ.get("SEED_ROUND", "1"))
    while os.path.exists(os.path.join(ROOT, "seeded", "%s-%d" % (prop, n))):
        n += 1
    dst = os.path.join(ROOT, "seeded", "%s-%d" % (prop, n))
    os.makedirs(dst)
    shutil.copyfile(patch, os.path.join(dst, "patch.diff"))
    for d in demos:
        shutil.copyfile(d, os.path.join(dst, os.path.basename(d) + ".txt" if d.endswith(".go") else os.path.basename(d)))
    if os.path.exists(readme):
        shutil.copyfile(readme, os.path.join(dst, "AGENT-README.md"))
    meta["breaks"] = prop
    meta["needs_to_manifest"] = "see AGENT-README.md"
    json.dump(meta, open(os.path.join(dst, "meta.json"), "w"), indent=1)
    print(json.dumps(meta, indent=1)[:3000])

main()
