#!/bin/bash
# trypatch.sh <patch> <PROP> [more verify.py args]: apply a patch to a scratch worktree of /repo HEAD, run the check against it, remove the worktree.
set -u
patch=$(readlink -f "$1"); prop=$2; shift 2
wt=/tmp/try-$prop-$$
git -C /repo worktree add --detach -q "$wt" HEAD || exit 3
( cd "$wt" && git apply --whitespace=nowarn "$patch" ) || { git -C /repo worktree remove --force "$wt"; exit 3; }
VERIF_REPO="$wt" python3 /verif/verify.py check "$prop" "$@" 2>&1 | grep -E "^OK|^VIOLATION|^UNDECIDED" | cut -c1-250
git -C /repo worktree remove --force "$wt"
tag=$(python3 -c "import hashlib,sys;print(hashlib.sha1(sys.argv[1].encode()).hexdigest())" "$wt")
rm -rf /verif/.build/alt-${tag:0:8}-* /verif/.build/mod-${tag:0:10}
