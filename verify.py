#!/usr/bin/env python3
"""Driver for the container-device-interface property checks.

Orchestration only: builds the harness from the current /repo tree, runs the
test binaries (sharded), merges the evidence fragments they write, turns test
failures into VIOLATION lines with a replay file.  No verdict logic lives
here: a check is violated iff a Go test (rapid property, enumeration, fuzz
target, stress) failed.

usage:
  verify.py setup
  verify.py check <ID> [--tier quick|thorough]
  verify.py replay <ID> <path>
  verify.py selftest [<mutant> ...]      (see selftest.py)

exit codes: 0 held, 1 VIOLATION printed, 2 could not decide.
"""
import array
import glob
import hashlib
import json
import os
import re
import shutil
import signal
import subprocess
import sys
import time
from concurrent.futures import ThreadPoolExecutor

ROOT = os.path.dirname(os.path.abspath(__file__))
sys.path.insert(0, ROOT)
import checks  # noqa: E402  (the per-property table)

HARNESS = os.path.join(ROOT, "harness")
BUILD = os.path.join(ROOT, ".build")
WORK = os.path.join(ROOT, ".work")
EVID = os.path.join(ROOT, "evidence")
REPLAYS = os.path.join(ROOT, "replays")
REGRESS = os.path.join(ROOT, "regressions")
KNOWN = os.path.join(ROOT, "known_findings.jsonl")
REPO = os.path.abspath(os.environ.get("VERIF_REPO", "/repo"))
NCPU = int(os.environ.get("VERIF_JOBS", "16"))
if REPO != "/repo":
    # self-test runs against scratch trees must not touch the real evidence or replays
    EVID = os.path.join(WORK, "alt-evidence")
    REPLAYS = os.path.join(WORK, "alt-replays")

GOENV = dict(os.environ)
GOENV.update({
    "GOFLAGS": "-mod=mod", "GOPROXY": "off", "GOSUMDB": "off", "GOTOOLCHAIN": "local",
    "CGO_ENABLED": "1",
})


def log(*a):
    print(*a, flush=True)


class Undecided(Exception):
    pass


# ----------------------------------------------------------------------------- build

def alt_tag():
    """prefix of the build output directory: one per scratch tree (two evaluations of different trees may run at once)."""
    if REPO == "/repo":
        return ""
    return "alt-%s-" % hashlib.sha1(REPO.encode()).hexdigest()[:8]


def modfile():
    """go.mod to build with: the committed one for /repo, a generated one
    (same content, other replace targets) for a VERIF_REPO scratch tree."""
    if REPO == "/repo":
        return None
    tag = hashlib.sha1(REPO.encode()).hexdigest()[:10]
    d = os.path.join(BUILD, "mod-" + tag)
    os.makedirs(d, exist_ok=True)
    src = open(os.path.join(HARNESS, "go.mod")).read()
    src = src.replace("=> /repo/", "=> " + REPO + "/").replace("=> /repo\n", "=> " + REPO + "\n")
    mf = os.path.join(d, "go.mod")
    if not os.path.exists(mf) or open(mf).read() != src:
        open(mf, "w").write(src)
    shutil.copyfile(os.path.join(HARNESS, "go.sum"), os.path.join(d, "go.sum"))
    return mf


def run_build(cmd, cwd):
    p = subprocess.run(cmd, cwd=cwd, env=GOENV, stdout=subprocess.PIPE, stderr=subprocess.STDOUT, text=True)
    if p.returncode != 0:
        log("BUILD FAILED: " + " ".join(cmd))
        log(p.stdout[-4000:])
        raise Undecided("build failed")


def build(outdir, race=False, fuzz=False, helpers=()):
    """Builds the props test binary (and helper binaries) from the current
    tree into outdir; returns the path of the test binary."""
    os.makedirs(outdir, exist_ok=True)
    name = "props" + (".race" if race else "") + (".fuzz" if fuzz else "") + ".test"
    out = os.path.join(outdir, name)
    cmd = ["go", "test", "-c", "-o", out]
    mf = modfile()
    if mf:
        cmd += ["-modfile=" + mf]
    if race:
        cmd += ["-race"]
    if fuzz:
        cmd += ["-fuzz=Fuzz"]
    cmd += ["./props"]
    run_build(cmd, HARNESS)
    for h in helpers:
        hout = os.path.join(outdir, h)
        if h == "vhelper":
            c = ["go", "build", "-o", hout]
            if mf:
                c += ["-modfile=" + mf]
            run_build(c + ["./cmd/vhelper"], HARNESS)
        elif h in ("cdi", "validate"):
            # the repository's own commands, built in their own modules
            env_flags = ["go", "build", "-mod=mod", "-o", hout, "."]
            run_build(env_flags, os.path.join(REPO, "cmd", h))
    return out


# ----------------------------------------------------------------------------- running

def seed_for(prop, unit, shard, vseed):
    h = int(hashlib.sha1(("%s/%s" % (prop, unit)).encode()).hexdigest()[:12], 16)
    s = ((vseed * 1000003 + h) * 64 + shard) % (2 ** 62)
    return s + 1  # never 0 (rapid reads 0 as "random")


class Job:
    def __init__(self, prop, unit, shard, nshards, cmd, cwd, env, timeout, want_checks=None):
        self.prop, self.unit, self.shard, self.nshards = prop, unit, shard, nshards
        self.cmd, self.cwd, self.env, self.timeout = cmd, cwd, env, timeout
        self.want_checks = want_checks
        self.rc = None
        self.out = ""
        self.timed_out = False
        self.wall = 0.0


def run_job(j):
    os.makedirs(j.cwd, exist_ok=True)
    t0 = time.time()
    logf = os.path.join(j.cwd, "output.log")
    with open(logf, "w") as lf:
        p = subprocess.Popen(j.cmd, cwd=j.cwd, env=j.env, stdout=lf, stderr=subprocess.STDOUT,
                             start_new_session=True)
        try:
            p.wait(timeout=j.timeout)
        except subprocess.TimeoutExpired:
            j.timed_out = True
            try:
                os.killpg(p.pid, signal.SIGKILL)
            except ProcessLookupError:
                pass
            p.wait()
    j.rc = p.returncode
    j.wall = time.time() - t0
    try:
        with open(logf, errors="replace") as f:
            j.out = f.read()
    except OSError:
        j.out = ""
    return j


def tier_val(v, tier):
    if isinstance(v, dict) and ("quick" in v or "thorough" in v):
        return v.get(tier, v.get("quick"))
    return v


def make_jobs(prop, spec, tier, vseed, bins, workroot):
    jobs = []
    frag = os.path.join(workroot, "frag")
    rdir = os.path.join(workroot, "replay")
    os.makedirs(frag, exist_ok=True)
    os.makedirs(rdir, exist_ok=True)
    for u in spec["units"]:
        if tier not in u.get("tiers", ["quick", "thorough"]):
            continue
        mode = u["mode"]
        name = u["name"]
        race = bool(u.get("race"))
        binary = bins["fuzz" if mode == "fuzz" else ("race" if race else "plain")]
        nshards = int(tier_val(u.get("shards", 16 if mode == "rapid" else 1), tier))
        timeout = int(tier_val(u.get("timeout", {"quick": 600, "thorough": 5400}), tier))
        for sh in range(nshards):
            env = dict(GOENV)
            env.update({
                "VERIF_TIER": tier, "VERIF_SEED": str(vseed), "VERIF_SHARD": str(sh),
                "VERIF_SHARDS": str(nshards), "VERIF_FRAG_DIR": frag, "VERIF_REPLAY_DIR": rdir,
                "VERIF_REGRESS_DIR": REGRESS, "VERIF_REPO_DIR": REPO, "VERIF_BIN_DIR": os.path.dirname(binary),
                "VERIF_VERIF_DIR": ROOT,
                "GORACE": "halt_on_error=1 exitcode=66",
            })
            # temporary files of the tests live below the work directory of the run and go away with it
            tmpd = os.path.join(workroot, "tmp")
            os.makedirs(tmpd, exist_ok=True)
            env["TMPDIR"] = tmpd
            for k, v in u.get("env", {}).items():
                env[k] = str(tier_val(v, tier))
            cwd = os.path.join(workroot, name, str(sh))
            # no go-test deadline: rapid ends a run early ("passed N" with N below the requested count) when
            # 5 average iterations no longer fit before the deadline, which on a loaded machine turned slow
            # cases into "undecided". The driver's own per-unit timeout bounds the run instead.
            cmd = [binary, "-test.v", "-test.count=1", "-test.timeout=0"]
            want = None
            if mode == "rapid":
                total = int(tier_val(u["checks"], tier))
                want = max(1, total // nshards)
                cmd += ["-test.run=^%s$" % u["run"], "-rapid.checks=%d" % want,
                        "-rapid.seed=%d" % seed_for(prop, name, sh, vseed),
                        "-rapid.shrinktime=%s" % ("30s" if tier == "quick" else "120s")]
                if "steps" in u:
                    cmd += ["-rapid.steps=%d" % int(tier_val(u["steps"], tier))]
            elif mode == "plain":
                cmd += ["-test.run=^%s$" % u["run"]]
                env["VERIF_RAPID_SEED"] = str(seed_for(prop, name, sh, vseed))
            elif mode == "fuzz":
                ft = tier_val(u.get("fuzztime", 60), tier)
                cache = os.path.join(workroot, name, "fuzzcache")
                os.makedirs(cache, exist_ok=True)
                cmd += ["-test.run=^$", "-test.fuzz=^%s$" % u["run"], "-test.fuzztime=%ss" % ft,
                        "-test.fuzzcachedir=" + cache, "-test.parallel=%d" % NCPU]
                # seed corpus shipped with the harness
                src = os.path.join(HARNESS, "props", "testdata", "fuzz", u["run"])
                if os.path.isdir(src):
                    dst = os.path.join(cwd, "testdata", "fuzz", u["run"])
                    os.makedirs(os.path.dirname(dst), exist_ok=True)
                    shutil.copytree(src, dst, dirs_exist_ok=True)
            else:
                raise SystemExit("unknown unit mode " + mode)
            jobs.append(Job(prop, name, sh, nshards, cmd, cwd, env, timeout, want))
    return jobs


RE_PASSED = re.compile(r"\[rapid\] OK, passed (\d+) tests")


def classify(j):
    """returns 'ok', 'violation' or 'undecided' for a finished job."""
    if j.timed_out:
        return "undecided"
    if j.rc == 0:
        if "VERIF-ENV-SKIP" in j.out and "--- FAIL" not in j.out:
            # the unit declared that this environment cannot run it (no ptrace, no effective permission bits, ...):
            # it is labelled in the evidence and the health thresholds say whether the rest suffices
            return "ok"
        if j.want_checks is not None:
            got = sum(int(x) for x in RE_PASSED.findall(j.out))
            if got < j.want_checks:
                return "undecided"
        if "--- FAIL" in j.out:
            return "violation"
        return "ok"
    if "VERIF-UNDECIDED" in j.out:
        return "undecided"
    if "--- FAIL" in j.out or "panic:" in j.out or "DATA RACE" in j.out or "fatal error:" in j.out \
            or "Failing input written to" in j.out:
        return "violation"
    return "undecided"


def collect_replays(prop, jobs_failed, workroot, stamp):
    """copies replay material of failing jobs to /verif/replays/<prop>/<stamp>/
    and returns the primary replay path of each failing job."""
    out = []
    base = os.path.join(REPLAYS, prop, stamp)
    for j in jobs_failed:
        d = os.path.join(base, "%s-%d" % (j.unit, j.shard))
        os.makedirs(d, exist_ok=True)
        shutil.copyfile(os.path.join(j.cwd, "output.log"), os.path.join(d, "output.log"))
        primary = None
        for f in glob.glob(os.path.join(j.cwd, "testdata", "rapid", "*", "*.fail")):
            dst = os.path.join(d, os.path.basename(f))
            shutil.copyfile(f, dst)
            primary = primary or dst
        for f in glob.glob(os.path.join(j.cwd, "testdata", "fuzz", "*", "*")):
            seedsrc = os.path.join(HARNESS, "props", "testdata", "fuzz", os.path.basename(os.path.dirname(f)),
                                   os.path.basename(f))
            if os.path.exists(seedsrc):
                continue
            sub = os.path.join(d, os.path.basename(os.path.dirname(f)))
            os.makedirs(sub, exist_ok=True)
            dst = os.path.join(sub, os.path.basename(f))
            shutil.copyfile(f, dst)
            primary = primary or dst
        # replay files written by the tests themselves (pid-tagged)
        for f in sorted(glob.glob(os.path.join(workroot, "replay", "*.json"))):
            m = re.search(r"replay: (\S+)", j.out)
            if f in j.out or (m and m.group(1) == f):
                dst = os.path.join(d, os.path.basename(f))
                shutil.copyfile(f, dst)
                primary = primary or dst
        if primary is None:
            primary = os.path.join(d, "output.log")
        out.append(primary)
    return out


# ----------------------------------------------------------------------------- evidence

def merge_evidence(prop, spec, tier, vseed, workroot, jobs, wall, violations, notes):
    frags = []
    for f in sorted(glob.glob(os.path.join(workroot, "frag", "*.frag.json"))):
        try:
            frags.append(json.load(open(f)))
        except Exception:
            pass
    evals = sum(f["evaluations"] for f in frags)
    hashes = set()
    capped = False
    for f in frags:
        capped = capped or f.get("hash_cap_reached", False)
        try:
            a = array.array("Q")
            with open(f["hash_file"], "rb") as hf:
                data = hf.read()
            a.frombytes(data[: len(data) // 8 * 8])
            hashes.update(a)
        except Exception:
            pass
    labels, excluded, extra, units = {}, {}, {}, {}
    samples = []
    for f in frags:
        for k, v in f.get("labels", {}).items():
            labels[k] = labels.get(k, 0) + v
        for k, v in f.get("excluded", {}).items():
            excluded[k] = excluded.get(k, 0) + v
        for k, v in f.get("extra", {}).items():
            extra[k] = extra.get(k, 0) + v
        u = units.setdefault(f["test"], {"evaluations": 0, "nontrivial": 0, "processes": 0})
        u["evaluations"] += f["evaluations"]
        u["nontrivial"] += f["nontrivial"]
        u["processes"] += 1
    # samples: round-robin over fragments so that every unit is represented
    per = {}
    for f in frags:
        per.setdefault(f["test"], []).extend(f.get("samples") or [])
    for t in sorted(per):
        for s in per[t][:4]:
            samples.append({"unit": t, "case": s})
    rule = spec["rule"]
    if capped:
        rule += " [distinct count is a lower bound: a per-process cap of 200000 hashes was reached]"
    ev = {
        "property_id": prop,
        "tier": tier,
        "seed": vseed,
        "level": spec["level"],
        "coverage": {
            "evaluations": evals,
            "distinct_nontrivial": len(hashes),
            "rule": rule,
            "samples": samples[:24],
            "nontrivial_total": sum(f["nontrivial"] for f in frags),
            "labels": dict(sorted(labels.items())),
            "excluded_by_construction": excluded,
            "counters": extra,
            "units": units,
            "exhaustive": bool(spec.get("exhaustive_part")),
            "exhaustive_note": spec.get("exhaustive_part", ""),
            "processes": len(jobs),
            "notes": notes,
        },
        "assumptions": spec.get("assumptions", []),
        "wall_s": round(wall, 2),
        "violations": violations,
    }
    if not spec.get("exhaustive_part"):
        del ev["coverage"]["exhaustive_note"]
    os.makedirs(EVID, exist_ok=True)
    tmp = os.path.join(EVID, ".%s.json.tmp" % prop)
    with open(tmp, "w") as f:
        json.dump(ev, f, indent=1, sort_keys=False)
    os.replace(tmp, os.path.join(EVID, prop + ".json"))
    return ev, labels


def known_findings(prop):
    out = []
    if os.path.exists(KNOWN):
        for line in open(KNOWN):
            line = line.strip()
            if not line or line.startswith("#"):
                continue
            try:
                e = json.loads(line)
            except Exception:
                continue
            if e.get("property") == prop or prop in e.get("properties", []):
                out.append(e)
    return out


# ----------------------------------------------------------------------------- commands

def cmd_check(prop, tier, only_units=None, replay_file=None):
    if prop not in checks.PROPS:
        log("unknown property " + prop)
        return 2
    spec = checks.PROPS[prop]
    vseed = int(os.environ.get("VERIF_SEED", "1") or "1")
    t0 = time.time()
    stamp = time.strftime("%Y%m%d-%H%M%S") + "-%d" % os.getpid()
    workroot = os.path.join(WORK, "%s-%s-%d" % (prop, tier, os.getpid()))
    shutil.rmtree(workroot, ignore_errors=True)
    os.makedirs(workroot)
    notes = []
    try:
        units = [u for u in spec["units"] if tier in u.get("tiers", ["quick", "thorough"])]
        if only_units:
            units = [u for u in units if u["name"] in only_units]
        need_race = any(u.get("race") for u in units)
        need_plain = any(not u.get("race") and u["mode"] != "fuzz" for u in units)
        need_fuzz = any(u["mode"] == "fuzz" for u in units)
        # binaries built against a VERIF_REPO scratch tree go elsewhere: a binary of a broken tree left under the
        # usual name is a trap for whoever runs it by hand later
        outdir = os.path.join(BUILD, "%s%s-%s" % (alt_tag(), prop, tier))
        bins = {}
        helpers = spec.get("helpers", ())
        if need_plain or not (need_race or need_fuzz):
            bins["plain"] = build(outdir, helpers=helpers)
            helpers = ()
        if need_race:
            bins["race"] = build(outdir, race=True, helpers=helpers)
            helpers = ()
        if need_fuzz:
            bins["fuzz"] = build(outdir, fuzz=True, helpers=helpers)
        spec2 = dict(spec)
        spec2["units"] = units
        jobs = make_jobs(prop, spec2, tier, vseed, bins, workroot)
        if replay_file:
            for j in jobs:
                j.env["VERIF_REPLAY_FILE"] = replay_file
        par = int(tier_val(spec.get("parallel", NCPU), tier))
        with ThreadPoolExecutor(max_workers=par) as ex:
            list(ex.map(run_job, jobs))
        verdicts = [(j, classify(j)) for j in jobs]
        failed = [j for j, v in verdicts if v == "violation"]
        undec = [j for j, v in verdicts if v == "undecided"]
        replays = collect_replays(prop, failed, workroot, stamp) if failed else []
        for j in undec:
            notes.append("undecided: unit %s shard %d rc=%s timed_out=%s" % (j.unit, j.shard, j.rc, j.timed_out))
            d = os.path.join(REPLAYS, prop, stamp, "undecided-%s-%d" % (j.unit, j.shard))
            os.makedirs(d, exist_ok=True)
            shutil.copyfile(os.path.join(j.cwd, "output.log"), os.path.join(d, "output.log"))
        ev, labels = merge_evidence(prop, spec, tier, vseed, workroot, jobs, time.time() - t0, len(failed), notes)
        for e in known_findings(prop):
            if e.get("status") == "known":
                log("KNOWN-FINDING: property=%s %s" % (prop, e.get("what", "")))
        if failed:
            shown = set()
            for j, r in zip(failed, replays):
                if j.unit in shown:
                    continue
                shown.add(j.unit)
                lines = j.out.strip().splitlines()
                # the first failure message is more useful than the tail of a stack trace
                idx = [i for i, l in enumerate(lines) if "violated" in l or "DATA RACE" in l or "panic:" in l]
                start = max(0, idx[0] - 2) if idx else max(0, len(lines) - 30)
                log("---- failing unit %s shard %d (of %d failing jobs) ----\n%s" % (
                    j.unit, j.shard, len(failed), "\n".join(lines[start:start + 30])))
            # one line per failing unit (the other shards' replays are kept next to it)
            shown = set()
            for j, r in zip(failed, replays):
                if j.unit in shown:
                    continue
                shown.add(j.unit)
                log("VIOLATION property=%s replay=%s" % (prop, r))
            return 1
        if undec:
            for j in undec:
                log("UNDECIDED: unit %s shard %d rc=%s timed_out=%s (log kept under %s)" % (
                    j.unit, j.shard, j.rc, j.timed_out, os.path.join(REPLAYS, prop, stamp)))
                log("\n".join(j.out.strip().splitlines()[-15:]))
            return 2
        # generator health: the classes the property cares about must occur
        waived = []
        for envlab, prefixes in spec.get("health_optional_if", {}).items():
            if labels.get(envlab, 0) > 0:
                waived += prefixes
                log("NOTE: %s - health thresholds for %s waived" % (envlab, prefixes))
        for lab, minimum in tier_val(spec.get("health", {}), tier).items() if spec.get("health") else []:
            if any(lab.startswith(w) for w in waived):
                continue
            if labels.get(lab, 0) < minimum:
                log("UNDECIDED: generator health: label %r seen %d times, need >= %d" % (lab, labels.get(lab, 0), minimum))
                return 2
        if ev["coverage"]["distinct_nontrivial"] < 2:
            log("UNDECIDED: fewer than 2 distinct non-trivial cases")
            return 2
        log("OK property=%s tier=%s seed=%d evaluations=%d distinct_nontrivial=%d wall=%.1fs" % (
            prop, tier, vseed, ev["coverage"]["evaluations"], ev["coverage"]["distinct_nontrivial"], time.time() - t0))
        return 0
    except Undecided as e:
        log("UNDECIDED: %s" % e)
        return 2
    finally:
        if not os.environ.get("VERIF_KEEP_WORK"):
            shutil.rmtree(workroot, ignore_errors=True)


def cmd_replay(prop, path):
    """re-runs exactly one saved failing case."""
    path = os.path.abspath(path)
    spec = checks.PROPS[prop]
    outdir = os.path.join(BUILD, "%s%s-replay" % (alt_tag(), prop))
    race = any(u.get("race") for u in spec["units"])
    base = os.path.basename(path)
    work = os.path.join(WORK, "replay-%s-%d" % (prop, os.getpid()))
    shutil.rmtree(work, ignore_errors=True)
    os.makedirs(work)
    env = dict(GOENV)
    env.update({"VERIF_TIER": "quick", "VERIF_REPLAY_DIR": os.path.join(work, "replay"), "VERIF_REGRESS_DIR": REGRESS,
                "VERIF_REPO_DIR": REPO, "VERIF_VERIF_DIR": ROOT, "GORACE": "halt_on_error=1 exitcode=66"})
    try:
        if base.endswith(".fail"):
            test = base.split("-")[0]
            u = [x for x in spec["units"] if x.get("run") == test]
            race = bool(u and u[0].get("race"))
            binary = build(outdir, race=race, helpers=spec.get("helpers", ()))
            env["VERIF_BIN_DIR"] = outdir
            cmd = [binary, "-test.v", "-test.run=^%s$" % test, "-rapid.failfile=" + path, "-rapid.nofailfile"]
        elif base.endswith(".json"):
            binary = build(outdir, race=race, helpers=spec.get("helpers", ()))
            env["VERIF_BIN_DIR"] = outdir
            env["VERIF_REPLAY_FILE"] = path
            cmd = [binary, "-test.v", "-test.run=^Test%sRegress$" % prop]
        else:
            # native fuzz crasher: <dir>/<FuzzName>/<hash>
            fz = os.path.basename(os.path.dirname(path))
            binary = build(outdir, helpers=spec.get("helpers", ()))
            env["VERIF_BIN_DIR"] = outdir
            dst = os.path.join(work, "testdata", "fuzz", fz)
            os.makedirs(dst)
            shutil.copyfile(path, os.path.join(dst, base))
            cmd = [binary, "-test.v", "-test.run=^%s$/^%s$" % (fz, base)]
        p = subprocess.run(cmd, cwd=work, env=env, stdout=subprocess.PIPE, stderr=subprocess.STDOUT, text=True)
        log(p.stdout[-6000:])
        if p.returncode != 0:
            log("VIOLATION property=%s replay=%s" % (prop, path))
            return 1
        log("replay passed")
        return 0
    except Undecided as e:
        log("UNDECIDED: %s" % e)
        return 2
    finally:
        shutil.rmtree(work, ignore_errors=True)


def cmd_setup():
    try:
        d = os.path.join(BUILD, "setup")
        build(d, helpers=("vhelper",) if os.path.isdir(os.path.join(HARNESS, "cmd", "vhelper")) and
              glob.glob(os.path.join(HARNESS, "cmd", "vhelper", "*.go")) else ())
        build(d, race=True)
        log("setup ok")
        return 0
    except Undecided:
        return 2


def main(argv):
    if len(argv) < 2:
        print(__doc__)
        return 2
    c = argv[1]
    if c == "setup":
        return cmd_setup()
    if c == "check":
        prop = argv[2]
        tier = os.environ.get("VERIF_TIER", "quick")
        units = None
        rest = argv[3:]
        while rest:
            if rest[0] == "--tier":
                tier = rest[1]
                rest = rest[2:]
            elif rest[0] == "--units":
                units = rest[1].split(",")
                rest = rest[2:]
            else:
                rest = rest[1:]
        return cmd_check(prop, tier, units)
    if c == "replay":
        return cmd_replay(argv[2], argv[3])
    if c == "selftest":
        import selftest
        return selftest.main(argv[2:])
    print(__doc__)
    return 2


if __name__ == "__main__":
    sys.exit(main(sys.argv))
